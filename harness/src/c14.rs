//! C14: match exhaustiveness and reachability are exact; the first matching arm runs.
//!
//! Monitor: batches of generated `fn m_i(x: T) -> u64 { match x { p_0 => 0, p_1 => 1, .. } }`
//! over small finite types (bool; u8/u16/u32/u64 matched with literal and named-constant patterns
//! from a pool of <= 4 cut points, so that the literals and the gaps between them partition the
//! value space into <= 9 classes; enums <= 4 variants with and without payload; structs and
//! tuples of these, depth <= 3; or-patterns, `_`, bindings, struct patterns with `..`, field
//! shorthand, fields out of order).
//! Reference: brute force over the class-reduced value space (which values no arm matches, which
//! arm matches a value first).
//! Observed: (1) the batch is type checked by the real front end with the harness's own
//! diagnostics handler: structured `MatchExpressionNonExhaustive { missing_patterns }` errors and
//! `MatchExpressionUnreachableArm` warnings, attributed to (function, arm) by span line; the
//! witness text is parsed with a small grammar; (2) the accepted functions are compiled by
//! forc-pkg to bytecode, debug and release, and run in the FuelVM on class representatives.
//! Checks: (i) accepted although a value is uncovered, (ii) rejected although every value is
//! covered, (iii) a reported witness contains a covered value / is not a pattern of the scrutinee
//! type, (iv) an arm flagged unreachable although a value reaches it first, or not flagged
//! although none does, (v) the arm that runs is not the first matching one.
use crate::common::*;
use crate::engine::*;
use crate::{Plan, Prop};
use anyhow::{anyhow, Result};
use forc_pkg::manifest::GenericManifestFile;
use forc_pkg::{BuildPlan, BuildProfile, PackageDescriptor, PkgOpts};
use rand::{rngs::StdRng, Rng};
use serde_json::{json, Value};
use std::collections::{BTreeMap, BTreeSet, HashMap};
use std::panic::AssertUnwindSafe;
use std::path::{Path, PathBuf};
use sway_core::{namespace, BuildTarget, DbgGeneration, Engines};
use sway_error::error::CompileError;
use sway_error::warning::{CompileWarning, Warning};
use sway_features::ExperimentalFeatures;
use sway_types::Spanned;

pub static META: PropertyMeta = PropertyMeta {
    id: "C14",
    level: "exploration",
    rule: "pattern matrices (1..8 arms) over bool / u8,u16,u32,u64 with <= 4 literal cut points / enums <= 4 variants / structs / tuples, depth <= 3, class-reduced value space <= 1500; patterns: literals, named constants, `_`, bindings, or-patterns (also nested), struct patterns with `..`, shorthand and reordered fields; generation modes: random arms, random arms completed to exhaustive from uncovered values, random arms + catch-all, with duplicated / specialised arms inserted; an evaluation = one matrix whose diagnostics were obtained; non-trivial = >= 2 arms and (rejected with >= 1 validated witness, or accepted and run on values that select >= 2 different arms); distinct = hash of scrutinee type + arms",
    assumptions: &[
        "fuel-vm 0.66 is the trusted execution substrate",
        "all values of one class (a literal, or a maximal gap between the literals used in the match) are matched alike by every pattern; a witness range is compared with the classes it intersects",
        "diagnostics are attributed by the line of their span: every arm is printed on its own line",
        "a matrix whose function also got another diagnostic (internal compiler error, ...) is inconclusive",
        "signatures: a finding on a matrix that has one of the pattern shapes behind the analysis defects recorded in known_findings.d/C14.json carries the name of that shape (see `defect_class`), every other finding carries the hash of the matrix; 60 % of the matrices are generated without these shapes so that they are checked in full",
    ],
    floor_evaluations: 200,
    floor_nontrivial: 60,
    required_counters: &[
        "matrices",
        "expected.exhaustive",
        "expected.non_exhaustive",
        "compiler.accepted",
        "compiler.rejected_non_exhaustive",
        "unreachable_arms.expected",
        "unreachable_arms.reported",
        "arms_reachable_and_not_flagged",
        "witnesses_validated",
        "runtime.selections",
        "runtime.selections.debug",
        "runtime.selections.release",
        "scrutinee.bool",
        "scrutinee.int",
        "scrutinee.enum",
        "scrutinee.struct",
        "scrutinee.tuple",
        "pattern.or",
        "pattern.wildcard",
        "pattern.binding",
        "pattern.literal",
        "pattern.constant",
        "pattern.struct_with_rest",
        "pattern.enum_variant",
        "witness.range",
        "witness.enum",
        "witness.tuple",
        "witness.struct",
    ],
};

pub static PROP: Prop = Prop {
    meta: &META,
    plan: |t| Plan { nshards: 16, budget_s: t.pick(45.0, 1000.0), mem_gib: 6 },
    shard,
    replay,
    extra: crate::no_extra,
    subcommand,
};

// ------------------------------------------------------------------------------------------
// Types, values, patterns

#[derive(Clone, Debug, PartialEq, Eq, Hash)]
pub enum MT {
    Bool,
    Int(u32),
    Enum(usize),
    Struct(usize),
    Tuple(Vec<MT>),
}

#[derive(Clone, Debug, Default)]
pub struct Decls {
    /// variant k of enum i: `Vk` with an optional payload
    pub enums: Vec<Vec<Option<MT>>>,
    /// field k of struct i: `fk`
    pub structs: Vec<Vec<MT>>,
}

#[derive(Clone, Debug, PartialEq, Eq)]
pub enum MV {
    Bool(bool),
    Int(u64),
    Enum(usize, Option<Box<MV>>),
    Struct(Vec<MV>),
    Tuple(Vec<MV>),
}

#[derive(Clone, Debug, PartialEq, Eq)]
pub enum P {
    Wild,
    Bind(String),
    Bool(bool),
    Lit(u32, u64),
    Const(u32, u64),
    Variant(usize, usize, Option<Box<P>>),
    Tuple(Vec<P>),
    /// (struct, listed fields in printing order, has `..`)
    Struct(usize, Vec<(usize, P)>, bool),
    Or(Vec<P>),
}

fn int_max(bits: u32) -> u64 {
    if bits == 64 {
        u64::MAX
    } else {
        (1u64 << bits) - 1
    }
}

fn enum_name(i: usize) -> String {
    format!("En{i}")
}
fn struct_name(i: usize) -> String {
    format!("St{i}")
}

impl MT {
    pub fn name(&self) -> String {
        match self {
            MT::Bool => "bool".into(),
            MT::Int(b) => format!("u{b}"),
            MT::Enum(i) => enum_name(*i),
            MT::Struct(i) => struct_name(*i),
            MT::Tuple(ts) => format!("({})", ts.iter().map(|t| t.name()).collect::<Vec<_>>().join(", ")),
        }
    }
    fn depth(&self, d: &Decls) -> usize {
        match self {
            MT::Bool | MT::Int(_) => 0,
            MT::Enum(i) => 1 + d.enums[*i].iter().flatten().map(|t| t.depth(d)).max().unwrap_or(0),
            MT::Struct(i) => 1 + d.structs[*i].iter().map(|t| t.depth(d)).max().unwrap_or(0),
            MT::Tuple(ts) => 1 + ts.iter().map(|t| t.depth(d)).max().unwrap_or(0),
        }
    }
    fn shape(&self) -> &'static str {
        match self {
            MT::Bool => "bool",
            MT::Int(_) => "int",
            MT::Enum(_) => "enum",
            MT::Struct(_) => "struct",
            MT::Tuple(_) => "tuple",
        }
    }
    fn collect_bits(&self, d: &Decls, out: &mut BTreeSet<u32>) {
        match self {
            MT::Bool => {}
            MT::Int(b) => {
                out.insert(*b);
            }
            MT::Enum(i) => d.enums[*i].iter().flatten().for_each(|t| t.collect_bits(d, out)),
            MT::Struct(i) => d.structs[*i].iter().for_each(|t| t.collect_bits(d, out)),
            MT::Tuple(ts) => ts.iter().for_each(|t| t.collect_bits(d, out)),
        }
    }
}

/// The classes of one match: per integer width the sorted literals used as cut points.
#[derive(Clone, Debug, Default)]
pub struct Pools(pub BTreeMap<u32, Vec<u64>>);

impl Pools {
    /// the classes of width `bits`: inclusive intervals, sorted
    pub fn classes(&self, bits: u32) -> Vec<(u64, u64)> {
        let max = int_max(bits);
        let lits = self.0.get(&bits).cloned().unwrap_or_default();
        let mut out = vec![];
        let mut next = 0u64; // first value not yet classified
        let mut done = false;
        for l in lits {
            if done {
                break;
            }
            if l > next {
                out.push((next, l - 1));
            }
            out.push((l, l));
            if l == max {
                done = true;
            } else {
                next = l + 1;
            }
        }
        if !done {
            out.push((next, max));
        }
        out
    }
    pub fn class_of(&self, bits: u32, v: u64) -> (u64, u64) {
        self.classes(bits).into_iter().find(|(lo, hi)| *lo <= v && v <= *hi).expect("value in a class")
    }
}

fn space_size(t: &MT, d: &Decls, pools: &Pools) -> u64 {
    match t {
        MT::Bool => 2,
        MT::Int(b) => pools.classes(*b).len() as u64,
        MT::Enum(i) => d.enums[*i].iter().map(|p| p.as_ref().map(|t| space_size(t, d, pools)).unwrap_or(1)).fold(0u64, |a, b| a.saturating_add(b)),
        MT::Struct(i) => d.structs[*i].iter().map(|t| space_size(t, d, pools)).fold(1u64, |a, b| a.saturating_mul(b)),
        MT::Tuple(ts) => ts.iter().map(|t| space_size(t, d, pools)).fold(1u64, |a, b| a.saturating_mul(b)),
    }
}

/// One representative (the lower end) of every class of `t`.
pub fn values(t: &MT, d: &Decls, pools: &Pools) -> Vec<MV> {
    fn product(parts: Vec<Vec<MV>>) -> Vec<Vec<MV>> {
        let mut acc: Vec<Vec<MV>> = vec![vec![]];
        for p in parts {
            let mut next = Vec::with_capacity(acc.len() * p.len());
            for a in &acc {
                for v in &p {
                    let mut a2 = a.clone();
                    a2.push(v.clone());
                    next.push(a2);
                }
            }
            acc = next;
        }
        acc
    }
    match t {
        MT::Bool => vec![MV::Bool(false), MV::Bool(true)],
        MT::Int(b) => pools.classes(*b).into_iter().map(|(lo, _)| MV::Int(lo)).collect(),
        MT::Enum(i) => {
            let mut out = vec![];
            for (k, p) in d.enums[*i].iter().enumerate() {
                match p {
                    None => out.push(MV::Enum(k, None)),
                    Some(pt) => out.extend(values(pt, d, pools).into_iter().map(|v| MV::Enum(k, Some(Box::new(v))))),
                }
            }
            out
        }
        MT::Struct(i) => product(d.structs[*i].iter().map(|t| values(t, d, pools)).collect()).into_iter().map(MV::Struct).collect(),
        MT::Tuple(ts) => product(ts.iter().map(|t| values(t, d, pools)).collect()).into_iter().map(MV::Tuple).collect(),
    }
}

pub fn matches(p: &P, v: &MV) -> bool {
    match (p, v) {
        (P::Wild, _) | (P::Bind(_), _) => true,
        (P::Or(ps), _) => ps.iter().any(|p| matches(p, v)),
        (P::Bool(a), MV::Bool(b)) => a == b,
        (P::Lit(_, a), MV::Int(b)) | (P::Const(_, a), MV::Int(b)) => a == b,
        (P::Variant(_, k, pp), MV::Enum(k2, pv)) => k == k2 && match (pp, pv) {
            (Some(pp), Some(pv)) => matches(pp, pv),
            _ => true,
        },
        (P::Tuple(ps), MV::Tuple(vs)) => ps.len() == vs.len() && ps.iter().zip(vs).all(|(p, v)| matches(p, v)),
        (P::Struct(_, fs, _), MV::Struct(vs)) => fs.iter().all(|(k, p)| matches(p, &vs[*k])),
        _ => panic!("c14: pattern/value shape mismatch {p:?} {v:?}"),
    }
}

pub fn first_match(arms: &[P], v: &MV) -> Option<usize> {
    arms.iter().position(|p| matches(p, v))
}

pub fn print_pat(p: &P) -> String {
    match p {
        P::Wild => "_".into(),
        P::Bind(n) => n.clone(),
        P::Bool(b) => b.to_string(),
        P::Lit(bits, v) => format!("{v}u{bits}"),
        P::Const(bits, v) => const_name(*bits, *v),
        P::Variant(e, k, None) => format!("{}::V{k}", enum_name(*e)),
        P::Variant(e, k, Some(p)) => format!("{}::V{k}({})", enum_name(*e), print_pat(p)),
        P::Tuple(ps) => format!("({})", ps.iter().map(print_pat).collect::<Vec<_>>().join(", ")),
        P::Struct(s, fs, rest) => {
            let mut parts: Vec<String> = fs
                .iter()
                .map(|(k, p)| match p {
                    P::Bind(n) if *n == format!("f{k}") => n.clone(),
                    _ => format!("f{k}: {}", print_pat(p)),
                })
                .collect();
            if *rest {
                parts.push("..".into());
            }
            format!("{} {{ {} }}", struct_name(*s), parts.join(", "))
        }
        P::Or(ps) => ps.iter().map(print_pat).collect::<Vec<_>>().join(" | "),
    }
}

fn const_name(bits: u32, v: u64) -> String {
    format!("C{bits}_{v}")
}

pub fn print_value(v: &MV, t: &MT, d: &Decls) -> String {
    match (v, t) {
        (MV::Bool(b), _) => b.to_string(),
        (MV::Int(x), MT::Int(bits)) => format!("{x}u{bits}"),
        (MV::Enum(k, None), MT::Enum(e)) => format!("{}::V{k}", enum_name(*e)),
        (MV::Enum(k, Some(p)), MT::Enum(e)) => format!("{}::V{k}({})", enum_name(*e), print_value(p, d.enums[*e][*k].as_ref().unwrap(), d)),
        (MV::Struct(vs), MT::Struct(s)) => format!("{} {{ {} }}", struct_name(*s), vs.iter().enumerate().map(|(k, v)| format!("f{k}: {}", print_value(v, &d.structs[*s][k], d))).collect::<Vec<_>>().join(", ")),
        (MV::Tuple(vs), MT::Tuple(ts)) => format!("({})", vs.iter().zip(ts).map(|(v, t)| print_value(v, t, d)).collect::<Vec<_>>().join(", ")),
        _ => panic!("c14: value/type mismatch"),
    }
}

// ------------------------------------------------------------------------------------------
// Generator

#[derive(Clone, Debug)]
pub struct Matrix {
    pub ty: MT,
    pub pools: Pools,
    pub arms: Vec<P>,
    pub mode: &'static str,
    /// generated without the pattern shapes behind the known findings (see `defect_class`)
    pub clean: bool,
}

#[derive(Clone, Debug)]
pub struct Batch {
    pub decls: Decls,
    pub fns: Vec<Matrix>,
}

const SPACE_CAP: u64 = 1500;
const MIN_BATCHES: u64 = 2;

struct Gen<'a> {
    rng: &'a mut StdRng,
    decls: Decls,
    /// restrict patterns to the shapes without known findings: or-patterns only between
    /// alternatives of one constructor class, struct patterns listing every field in
    /// declaration order
    clean: bool,
    /// the scrutinee of the matrix being generated has several columns
    multi: bool,
}

impl Gen<'_> {
    fn scalar(&mut self) -> MT {
        match self.rng.gen_range(0..10) {
            0..=2 => MT::Bool,
            3..=5 => MT::Int(8),
            6 => MT::Int(16),
            7 => MT::Int(32),
            _ => MT::Int(64),
        }
    }
    /// a type of depth <= `depth` built from the declarations made so far
    fn ty(&mut self, depth: usize) -> MT {
        if depth == 0 || self.rng.gen_bool(0.3) {
            return self.scalar();
        }
        for _ in 0..4 {
            match self.rng.gen_range(0..3) {
                0 => {
                    let c: Vec<usize> = (0..self.decls.enums.len()).filter(|i| MT::Enum(*i).depth(&self.decls) <= depth).collect();
                    if !c.is_empty() {
                        return MT::Enum(c[self.rng.gen_range(0..c.len())]);
                    }
                }
                1 => {
                    let c: Vec<usize> = (0..self.decls.structs.len()).filter(|i| MT::Struct(*i).depth(&self.decls) <= depth).collect();
                    if !c.is_empty() {
                        return MT::Struct(c[self.rng.gen_range(0..c.len())]);
                    }
                }
                _ => {
                    let n = self.rng.gen_range(2..=3);
                    return MT::Tuple((0..n).map(|_| self.ty(depth - 1)).collect());
                }
            }
        }
        self.scalar()
    }
    fn declare(&mut self) {
        let n_decls = self.rng.gen_range(3..=5);
        for j in 0..n_decls {
            let depth = if j < 2 { 0 } else { self.rng.gen_range(0..=1) };
            if self.rng.gen_bool(0.6) {
                let n = self.rng.gen_range(1..=4);
                let vars = (0..n).map(|_| if self.rng.gen_bool(0.4) { None } else { Some(self.ty(depth)) }).collect();
                self.decls.enums.push(vars);
            } else {
                let n = self.rng.gen_range(1..=3);
                let fields = (0..n).map(|_| self.ty(depth)).collect();
                self.decls.structs.push(fields);
            }
        }
        if self.decls.enums.is_empty() {
            self.decls.enums.push(vec![None, Some(MT::Bool), Some(MT::Int(8))]);
        }
        if self.decls.structs.is_empty() {
            self.decls.structs.push(vec![MT::Bool, MT::Int(8)]);
        }
    }
    fn pool(&mut self, bits: u32) -> Vec<u64> {
        let max = int_max(bits);
        let k = match self.rng.gen_range(0..12) {
            0 => 0,
            1..=3 => 1,
            4..=7 => 2,
            8..=10 => 3,
            _ => 4,
        };
        let mut s = BTreeSet::new();
        let mut guard = 0;
        while s.len() < k && guard < 40 {
            guard += 1;
            let v = match self.rng.gen_range(0..12) {
                0 | 1 => 0,
                2 => 1,
                3 => 2,
                4 => 3,
                5 => 7,
                6 => max,
                7 => max - 1,
                8 => max / 2,
                9 => max / 2 + 1,
                10 => self.rng.gen_range(0..=max.min(300)),
                _ => self.rng.gen_range(0..=max),
            };
            s.insert(v);
            // adjacent cut points leave no gap between them
            if s.len() < k && self.rng.gen_bool(0.3) && v < max {
                s.insert(v + 1);
            }
        }
        s.into_iter().collect()
    }
    fn pat(&mut self, t: &MT, pools: &Pools, in_or: bool, names: &mut BTreeSet<String>) -> P {
        self.pat_at(t, pools, in_or, names, false)
    }
    fn pat_at(&mut self, t: &MT, pools: &Pools, in_or: bool, names: &mut BTreeSet<String>, top: bool) -> P {
        let r = self.rng.gen_range(0..100);
        // catch-alls: rarer as a whole arm and inside or-patterns
        let (wild, bind) = if top { (4, 7) } else if in_or { (4, 4) } else { (13, 21) };
        // the clean dialect has no catch-all inside an or-pattern and none inside a pattern of a
        // scrutinee with several columns
        let no_catch_all = self.clean && (in_or || (self.multi && !top));
        if r < wild && !no_catch_all {
            return P::Wild;
        }
        if r < bind && !in_or && !no_catch_all {
            let n = format!("x{}", names.len());
            names.insert(n.clone());
            return P::Bind(n);
        }
        if r < 33 && !in_or {
            let n = self.rng.gen_range(2..=3);
            if self.clean {
                // alternatives of one constructor class: the same variant, or literals, or tuples / structs
                let first = self.ctor_pat(t, pools, true, names);
                let mut alts = vec![first.clone()];
                for _ in 1..n {
                    let mut alt = self.ctor_pat(t, pools, true, names);
                    for _ in 0..8 {
                        if head_class(&alt) == head_class(&first) {
                            break;
                        }
                        alt = self.ctor_pat(t, pools, true, names);
                    }
                    if head_class(&alt) == head_class(&first) {
                        alts.push(alt);
                    }
                }
                return or_of(alts);
            }
            let alts = (0..n).map(|_| self.pat(t, pools, true, names)).collect();
            return or_of(alts);
        }
        self.ctor_pat(t, pools, in_or, names)
    }
    fn ctor_pat(&mut self, t: &MT, pools: &Pools, in_or: bool, names: &mut BTreeSet<String>) -> P {
        match t {
            MT::Bool => P::Bool(self.rng.gen()),
            MT::Int(b) => {
                let pool = pools.0.get(b).cloned().unwrap_or_default();
                if pool.is_empty() {
                    return P::Wild;
                }
                let v = pool[self.rng.gen_range(0..pool.len())];
                if self.rng.gen_bool(0.3) {
                    P::Const(*b, v)
                } else {
                    P::Lit(*b, v)
                }
            }
            MT::Enum(e) => {
                let k = self.rng.gen_range(0..self.decls.enums[*e].len());
                match self.decls.enums[*e][k].clone() {
                    None => P::Variant(*e, k, None),
                    Some(pt) => P::Variant(*e, k, Some(Box::new(self.pat(&pt, pools, in_or, names)))),
                }
            }
            MT::Tuple(ts) => P::Tuple(ts.iter().map(|t| self.pat(t, pools, in_or, names)).collect()),
            MT::Struct(s) => {
                let fts = self.decls.structs[*s].clone();
                let mut fields = vec![];
                for (k, ft) in fts.iter().enumerate() {
                    if self.clean || self.rng.gen_bool(0.7) {
                        let short = format!("f{k}");
                        let p = if !in_or && !names.contains(&short) && self.rng.gen_bool(0.15) {
                            names.insert(short.clone());
                            P::Bind(short)
                        } else {
                            self.pat(ft, pools, in_or, names)
                        };
                        fields.push((k, p));
                    }
                }
                let rest = fields.len() < fts.len() || self.rng.gen_bool(0.15);
                if !self.clean && fields.len() > 1 && self.rng.gen_bool(0.3) {
                    fields.reverse();
                }
                P::Struct(*s, fields, rest)
            }
        }
    }
    /// a pattern that matches `v`, generalised with probability `q` per node
    fn pat_for(&mut self, v: &MV, t: &MT, pools: &Pools, q: f64, names: &mut BTreeSet<String>) -> P {
        let q = if self.clean && self.multi { 0.0 } else { q };
        if self.rng.gen_bool(q) {
            if self.rng.gen_bool(0.25) {
                let n = format!("x{}", names.len());
                names.insert(n.clone());
                return P::Bind(n);
            }
            return P::Wild;
        }
        match (v, t) {
            (MV::Bool(b), _) => P::Bool(*b),
            (MV::Int(x), MT::Int(bits)) => {
                if pools.0.get(bits).map(|p| p.contains(x)).unwrap_or(false) {
                    if self.rng.gen_bool(0.3) {
                        P::Const(*bits, *x)
                    } else {
                        P::Lit(*bits, *x)
                    }
                } else {
                    // a gap cannot be written as a pattern
                    P::Wild
                }
            }
            (MV::Enum(k, pv), MT::Enum(e)) => match pv {
                None => P::Variant(*e, *k, None),
                Some(pv) => {
                    let pt = self.decls.enums[*e][*k].clone().unwrap();
                    P::Variant(*e, *k, Some(Box::new(self.pat_for(pv, &pt, pools, q, names))))
                }
            },
            (MV::Tuple(vs), MT::Tuple(ts)) => P::Tuple(vs.iter().zip(ts).map(|(v, t)| self.pat_for(v, t, pools, q, names)).collect()),
            (MV::Struct(vs), MT::Struct(s)) => {
                let fts = self.decls.structs[*s].clone();
                let mut fields = vec![];
                let mut rest = false;
                for (k, v) in vs.iter().enumerate() {
                    let p = self.pat_for(v, &fts[k], pools, q, names);
                    if p == P::Wild && !self.clean && self.rng.gen_bool(0.6) {
                        rest = true;
                    } else {
                        fields.push((k, p));
                    }
                }
                P::Struct(*s, fields, rest)
            }
            _ => unreachable!(),
        }
    }
    fn matrix(&mut self) -> Matrix {
        // scrutinee type and cut points, bounded value space
        self.clean = self.rng.gen_bool(0.6);
        let (ty, pools) = {
            let mut found = None;
            for attempt in 0..30 {
                let depth = if attempt < 20 { self.rng.gen_range(0..=3) } else { 1 };
                let ty = self.ty(depth);
                let mut bits = BTreeSet::new();
                ty.collect_bits(&self.decls, &mut bits);
                let mut pools = Pools::default();
                for b in bits {
                    let mut p = self.pool(b);
                    if p.is_empty() && self.clean {
                        p.push(self.rng.gen_range(0..=int_max(b).min(9)));
                    }
                    pools.0.insert(b, p);
                }
                if space_size(&ty, &self.decls, &pools) <= SPACE_CAP {
                    found = Some((ty, pools));
                    break;
                }
            }
            found.unwrap_or((MT::Bool, Pools::default()))
        };
        let vals = values(&ty, &self.decls, &pools);
        self.multi = multi_column(&ty, &self.decls);
        let mode = match self.rng.gen_range(0..20) {
            0..=8 => "random",
            9..=15 => "completed",
            _ => "catch_all_last",
        };
        let n = self.rng.gen_range(1..=5);
        let mut arms: Vec<P> = vec![];
        for _ in 0..n {
            let mut names = BTreeSet::new();
            let p = self.pat_at(&ty, &pools, false, &mut names, true);
            arms.push(p);
        }
        // duplicated / specialised arms: unreachable ones
        if self.rng.gen_bool(0.3) && !arms.is_empty() {
            let i = self.rng.gen_range(0..arms.len());
            let covered: Vec<&MV> = vals.iter().filter(|v| matches(&arms[i], v)).collect();
            let dup = if self.rng.gen_bool(0.5) || covered.is_empty() {
                arms[i].clone()
            } else {
                let v = covered[self.rng.gen_range(0..covered.len())].clone();
                let mut names = BTreeSet::new();
                self.pat_for(&v, &ty, &pools, 0.15, &mut names)
            };
            let at = self.rng.gen_range(i + 1..=arms.len());
            arms.insert(at, dup);
        }
        match mode {
            "completed" => {
                for _ in 0..6 {
                    let uncovered: Vec<&MV> = vals.iter().filter(|v| first_match(&arms, v).is_none()).collect();
                    if uncovered.is_empty() {
                        break;
                    }
                    let v = uncovered[self.rng.gen_range(0..uncovered.len())].clone();
                    let q = [0.2, 0.5, 0.8][self.rng.gen_range(0..3)];
                    let mut names = BTreeSet::new();
                    let p = self.pat_for(&v, &ty, &pools, q, &mut names);
                    arms.push(p);
                }
                // leave some of them open: drop one arm that is the only one matching some value
                if self.rng.gen_bool(0.3) && arms.len() > 1 {
                    let i = self.rng.gen_range(0..arms.len());
                    arms.remove(i);
                }
                // a last attempt to close the match with a catch-all: sometimes left open
                if self.rng.gen_bool(0.4) && vals.iter().any(|v| first_match(&arms, v).is_none()) {
                    arms.push(if self.rng.gen_bool(0.5) { P::Wild } else { P::Bind("rest".into()) });
                }
            }
            "catch_all_last" => {
                arms.push(if self.rng.gen_bool(0.6) { P::Wild } else { P::Bind("other".into()) });
                // and sometimes something after it
                if self.rng.gen_bool(0.25) {
                    let mut names = BTreeSet::new();
                    let p = self.pat(&ty, &pools, false, &mut names);
                    arms.push(p);
                }
            }
            _ => {}
        }
        arms.truncate(8);
        Matrix { ty, pools, arms, mode, clean: self.clean }
    }
}

pub fn gen_batch(rng: &mut StdRng, nfns: usize) -> Batch {
    let mut g = Gen { rng, decls: Decls::default(), clean: false, multi: false };
    g.declare();
    let fns = (0..nfns).map(|_| g.matrix()).collect();
    Batch { decls: g.decls, fns }
}

// ------------------------------------------------------------------------------------------
// Source text

pub struct FnLines {
    pub first: usize,
    pub last: usize,
    pub arm_lines: Vec<usize>,
}

fn collect_consts(p: &P, out: &mut BTreeSet<(u32, u64)>) {
    match p {
        P::Const(b, v) => {
            out.insert((*b, *v));
        }
        P::Variant(_, _, Some(p)) => collect_consts(p, out),
        P::Tuple(ps) | P::Or(ps) => ps.iter().for_each(|p| collect_consts(p, out)),
        P::Struct(_, fs, _) => fs.iter().for_each(|(_, p)| collect_consts(p, out)),
        _ => {}
    }
}

fn header(b: &Batch, only: Option<&BTreeSet<usize>>) -> String {
    let mut s = String::from("script;\n\n");
    for (i, vars) in b.decls.enums.iter().enumerate() {
        s.push_str(&format!("enum {} {{\n", enum_name(i)));
        for (k, p) in vars.iter().enumerate() {
            s.push_str(&format!("    V{k}: {},\n", p.as_ref().map(|t| t.name()).unwrap_or("()".into())));
        }
        s.push_str("}\n\n");
    }
    for (i, fs) in b.decls.structs.iter().enumerate() {
        s.push_str(&format!("struct {} {{\n", struct_name(i)));
        for (k, t) in fs.iter().enumerate() {
            s.push_str(&format!("    f{k}: {},\n", t.name()));
        }
        s.push_str("}\n\n");
    }
    let mut consts = BTreeSet::new();
    for (i, m) in b.fns.iter().enumerate() {
        if only.map(|o| o.contains(&i)).unwrap_or(true) {
            m.arms.iter().for_each(|p| collect_consts(p, &mut consts));
        }
    }
    for (bits, v) in consts {
        s.push_str(&format!("const {}: u{bits} = {v}u{bits};\n", const_name(bits, v)));
    }
    s.push('\n');
    s
}

fn print_fn(s: &mut String, i: usize, m: &Matrix) -> FnLines {
    let line = |s: &String| s.matches('\n').count() + 1;
    let first = line(s);
    s.push_str(&format!("fn m{i}(x: {}) -> u64 {{\n    match x {{\n", m.ty.name()));
    let mut arm_lines = vec![];
    for (k, p) in m.arms.iter().enumerate() {
        arm_lines.push(line(s));
        s.push_str(&format!("        {} => {k}u64,\n", print_pat(p)));
    }
    s.push_str("    }\n}\n");
    let last = line(s) - 1;
    s.push('\n');
    FnLines { first, last, arm_lines }
}

/// Phase 1 program: every matrix, nothing is called.
pub fn diag_source(b: &Batch) -> (String, Vec<FnLines>) {
    let mut s = header(b, None);
    let mut lines = vec![];
    for (i, m) in b.fns.iter().enumerate() {
        lines.push(print_fn(&mut s, i, m));
    }
    s.push_str("fn main() -> u64 {\n    0u64\n}\n");
    (s, lines)
}

/// Phase 2 program: the accepted matrices and a `main(sel)` that applies them to the chosen values.
pub fn run_source(b: &Batch, runs: &[(usize, MV)]) -> String {
    let only: BTreeSet<usize> = runs.iter().map(|r| r.0).collect();
    let mut s = header(b, Some(&only));
    for i in &only {
        print_fn(&mut s, *i, &b.fns[*i]);
    }
    s.push_str("fn main(sel: u64) -> u64 {\n");
    for (j, (i, v)) in runs.iter().enumerate() {
        s.push_str(&format!("    if sel == {j}u64 {{\n        return m{i}({});\n    }}\n", print_value(v, &b.fns[*i].ty, &b.decls)));
    }
    s.push_str("    424242u64\n}\n");
    s
}

// ------------------------------------------------------------------------------------------
// Witness grammar

#[derive(Clone, Debug, PartialEq)]
pub enum WP {
    Wild,
    Bool(bool),
    Range(u64, u64),
    /// MIN / MAX bounds are resolved against the type when checked
    RangeSym(Option<u64>, Option<u64>),
    Variant(String, String, Box<WP>),
    Tuple(Vec<WP>),
    Struct(String, Vec<(String, WP)>, bool),
    Or(Vec<WP>),
}

struct WParser<'a> {
    s: &'a [u8],
    i: usize,
}

impl WParser<'_> {
    fn ws(&mut self) {
        while self.i < self.s.len() && self.s[self.i].is_ascii_whitespace() {
            self.i += 1;
        }
    }
    fn eat(&mut self, t: &str) -> bool {
        self.ws();
        if self.s[self.i..].starts_with(t.as_bytes()) {
            self.i += t.len();
            true
        } else {
            false
        }
    }
    fn expect(&mut self, t: &str) -> Result<(), String> {
        if self.eat(t) {
            Ok(())
        } else {
            Err(format!("expected `{t}` at {}", self.i))
        }
    }
    fn ident(&mut self) -> Option<String> {
        self.ws();
        let st = self.i;
        while self.i < self.s.len() && (self.s[self.i].is_ascii_alphanumeric() || self.s[self.i] == b'_') {
            self.i += 1;
        }
        if self.i == st {
            None
        } else {
            Some(String::from_utf8_lossy(&self.s[st..self.i]).to_string())
        }
    }
    fn bound(&mut self) -> Result<Option<u64>, String> {
        let id = self.ident().ok_or("expected a range bound")?;
        if id == "MIN" || id == "MAX" {
            Ok(None)
        } else {
            id.parse::<u64>().map(Some).map_err(|_| format!("bad range bound `{id}`"))
        }
    }
    fn or(&mut self) -> Result<WP, String> {
        let mut alts = vec![self.atom()?];
        while self.eat("|") {
            alts.push(self.atom()?);
        }
        Ok(if alts.len() == 1 { alts.pop().unwrap() } else { WP::Or(alts) })
    }
    fn atom(&mut self) -> Result<WP, String> {
        self.ws();
        if self.eat("[") {
            let lo = self.bound()?;
            self.expect("...")?;
            let hi = self.bound()?;
            self.expect("]")?;
            return Ok(WP::RangeSym(lo, hi));
        }
        if self.eat("(") {
            let mut elems = vec![];
            if self.eat(")") {
                return Ok(WP::Tuple(elems));
            }
            loop {
                elems.push(self.or()?);
                if self.eat(",") {
                    if self.eat(")") {
                        break;
                    }
                    continue;
                }
                self.expect(")")?;
                break;
            }
            return Ok(WP::Tuple(elems));
        }
        let id = self.ident().ok_or_else(|| format!("unexpected character at {}", self.i))?;
        if id == "_" {
            return Ok(WP::Wild);
        }
        if id == "true" {
            return Ok(WP::Bool(true));
        }
        if id == "false" {
            return Ok(WP::Bool(false));
        }
        if id.as_bytes()[0].is_ascii_digit() {
            let v = id.parse::<u64>().map_err(|_| format!("bad integer `{id}`"))?;
            return Ok(WP::Range(v, v));
        }
        if self.eat("::") {
            let var = self.ident().ok_or("expected a variant name")?;
            let inner = if self.eat("(") {
                if self.eat(")") {
                    WP::Tuple(vec![])
                } else {
                    let p = self.or()?;
                    self.expect(")")?;
                    p
                }
            } else {
                WP::Wild
            };
            return Ok(WP::Variant(id, var, Box::new(inner)));
        }
        if self.eat("{") {
            let mut fields = vec![];
            let mut rest = false;
            loop {
                if self.eat("}") {
                    break;
                }
                if self.eat("...") || self.eat("..") {
                    rest = true;
                    self.expect("}")?;
                    break;
                }
                let f = self.ident().ok_or("expected a field name")?;
                self.expect(":")?;
                let p = self.or()?;
                fields.push((f, p));
                if !self.eat(",") {
                    self.expect("}")?;
                    break;
                }
            }
            return Ok(WP::Struct(id, fields, rest));
        }
        Err(format!("identifier `{id}` is not a pattern of the witness grammar"))
    }
}

pub fn parse_witness(text: &str) -> Result<WP, String> {
    let mut p = WParser { s: text.as_bytes(), i: 0 };
    let w = p.or()?;
    p.ws();
    if p.i != p.s.len() {
        return Err(format!("trailing text at {}", p.i));
    }
    Ok(w)
}

/// The witnesses of a `missing_patterns` text: the parts between back ticks.
pub fn split_witnesses(missing: &str) -> Vec<String> {
    missing.split('`').enumerate().filter(|(i, _)| i % 2 == 1).map(|(_, s)| s.to_string()).collect()
}

/// Does the witness pattern contain a value of the class of `v`? Err = the witness is not a
/// pattern of type `t`.
pub fn witness_meets(w: &WP, t: &MT, v: &MV, d: &Decls, pools: &Pools) -> Result<bool, String> {
    match (w, t, v) {
        (WP::Wild, _, _) => Ok(true),
        (WP::Or(ws), _, _) => {
            let mut any = false;
            for w in ws {
                any |= witness_meets(w, t, v, d, pools)?;
            }
            Ok(any)
        }
        (WP::Bool(a), MT::Bool, MV::Bool(b)) => Ok(a == b),
        (WP::Range(..) | WP::RangeSym(..), MT::Int(bits), MV::Int(x)) => {
            let max = int_max(*bits);
            let (a, b) = match w {
                WP::Range(a, b) => (*a, *b),
                WP::RangeSym(a, b) => (a.unwrap_or(0), b.unwrap_or(max)),
                _ => unreachable!(),
            };
            if a > b || b > max {
                return Err(format!("range [{a}...{b}] is not a range of u{bits}"));
            }
            let (lo, hi) = pools.class_of(*bits, *x);
            Ok(lo <= b && a <= hi)
        }
        (WP::Variant(en, vn, inner), MT::Enum(e), MV::Enum(k, pv)) => {
            if *en != enum_name(*e) {
                return Err(format!("enum `{en}` where `{}` is matched", enum_name(*e)));
            }
            let Some(wk) = vn.strip_prefix('V').and_then(|n| n.parse::<usize>().ok()).filter(|n| *n < d.enums[*e].len()) else {
                return Err(format!("`{en}` has no variant `{vn}`"));
            };
            match &d.enums[*e][wk] {
                None => {
                    if !matches!(**inner, WP::Wild) && **inner != WP::Tuple(vec![]) {
                        return Err(format!("payload pattern for the unit variant `{en}::{vn}`"));
                    }
                    Ok(wk == *k)
                }
                Some(pt) => {
                    if wk != *k {
                        // still type check the payload against some value of the payload type
                        let any = values(pt, d, pools).into_iter().next().unwrap();
                        witness_meets(inner, pt, &any, d, pools)?;
                        return Ok(false);
                    }
                    witness_meets(inner, pt, pv.as_ref().unwrap(), d, pools)
                }
            }
        }
        (WP::Tuple(ws), MT::Tuple(ts), MV::Tuple(vs)) => {
            if ws.len() != ts.len() {
                return Err(format!("tuple pattern with {} elements for a tuple of {}", ws.len(), ts.len()));
            }
            let mut all = true;
            for ((w, t), v) in ws.iter().zip(ts).zip(vs) {
                all &= witness_meets(w, t, v, d, pools)?;
            }
            Ok(all)
        }
        (WP::Struct(sn, fs, _), MT::Struct(s), MV::Struct(vs)) => {
            if *sn != struct_name(*s) {
                return Err(format!("struct `{sn}` where `{}` is matched", struct_name(*s)));
            }
            let mut all = true;
            let mut seen = BTreeSet::new();
            for (f, w) in fs {
                let Some(k) = f.strip_prefix('f').and_then(|n| n.parse::<usize>().ok()).filter(|k| *k < vs.len()) else {
                    return Err(format!("`{sn}` has no field `{f}`"));
                };
                if !seen.insert(k) {
                    return Err(format!("field `{f}` twice"));
                }
                all &= witness_meets(w, &d.structs[*s][k], &vs[k], d, pools)?;
            }
            Ok(all)
        }
        _ => Err(format!("pattern {w:?} is not a pattern of type {}", t.name())),
    }
}

fn witness_shapes(w: &WP, out: &mut BTreeSet<&'static str>) {
    match w {
        WP::Wild => {
            out.insert("wildcard");
        }
        WP::Bool(_) => {
            out.insert("bool");
        }
        WP::Range(a, b) => {
            out.insert(if a == b { "integer" } else { "range" });
        }
        WP::RangeSym(..) => {
            out.insert("range");
        }
        WP::Variant(_, _, p) => {
            out.insert("enum");
            witness_shapes(p, out);
        }
        WP::Tuple(ps) => {
            out.insert("tuple");
            ps.iter().for_each(|p| witness_shapes(p, out));
        }
        WP::Struct(_, fs, rest) => {
            out.insert("struct");
            if *rest {
                out.insert("struct_rest");
            }
            fs.iter().for_each(|(_, p)| witness_shapes(p, out));
        }
        WP::Or(ps) => {
            out.insert("or");
            ps.iter().for_each(|p| witness_shapes(p, out));
        }
    }
}

// ------------------------------------------------------------------------------------------
// Front end with the harness's own handler (errors AND warnings). This replicates
// `engine::Amortised::{std_cache, diagnose_dir}`, which keeps only the errors.

pub struct Checker {
    work: PathBuf,
    cache: Option<(Engines, namespace::Package)>,
    compiled: u64,
    counter: u64,
}

pub struct Diagnostics {
    pub errors: Vec<CompileError>,
    pub warnings: Vec<CompileWarning>,
}

impl Checker {
    pub fn new(work: &Path) -> Self {
        std::fs::create_dir_all(work).ok();
        Checker { work: work.to_path_buf(), cache: None, compiled: 0, counter: 0 }
    }
    fn std(&mut self) -> Result<()> {
        if self.compiled >= 300 {
            self.cache = None;
            self.compiled = 0;
        }
        if self.cache.is_some() {
            return Ok(());
        }
        let dir = self.work.join(format!("chk_stdseed_{}", self.counter));
        self.counter += 1;
        write_pkg(&dir, "stdseed", "library;\n", true)?;
        let plan = BuildPlan::from_pkg_opts(&PkgOpts { path: Some(dir.to_string_lossy().to_string()), offline: true, terse: true, ..Default::default() })?;
        let engines = Engines::default();
        let graph = plan.graph();
        let std_node = graph.node_indices().find(|n| graph[*n].name == "std").ok_or_else(|| anyhow!("no std node"))?;
        let pkg = &graph[std_node];
        let manifest = &plan.manifest_map()[&pkg.id()];
        let bp = BuildProfile::debug();
        let dbg = DbgGeneration::Full;
        let experimental = ExperimentalFeatures::new(&manifest.project.experimental, &[], &[]).map_err(|e| anyhow!("{e}"))?;
        let descriptor = PackageDescriptor { name: pkg.name.clone(), target: BuildTarget::Fuel, pinned: pkg.clone(), manifest_file: manifest.clone() };
        let program_id = engines.se().get_or_create_program_id_from_manifest_path(&manifest.entry_path());
        let ns = forc_pkg::dependency_namespace(&HashMap::default(), &HashMap::new(), graph, std_node, &engines, None, program_id, experimental, dbg).map_err(|e| anyhow!("std namespace: {:?}", e.first()))?;
        let mut sm = sway_core::source_map::SourceMap::new();
        let bp_lib = BuildProfile { include_tests: false, ..bp };
        let compiled = forc_pkg::compile(&descriptor, &bp_lib, &engines, ns, &mut sm, experimental, dbg)?;
        let _ = std::fs::remove_dir_all(&dir);
        self.cache = Some((engines, compiled.namespace));
        Ok(())
    }
    pub fn warm(&mut self) -> Result<()> {
        self.std()
    }
    /// Parse + type check one script (the match analysis runs during type checking).
    pub fn check(&mut self, src: &str) -> Result<Diagnostics> {
        self.std()?;
        self.compiled += 1;
        let dir = self.work.join(format!("chk{}", self.counter));
        self.counter += 1;
        write_pkg(&dir, "c14diag", src, true)?;
        let r = self.check_dir(&dir);
        let _ = std::fs::remove_dir_all(&dir);
        r
    }
    /// Full forc-pkg compilation of one script in the debug profile with the cached std (what
    /// `engine::Amortised::compile` does; done here to avoid a third copy of std per worker).
    pub fn compile_debug(&mut self, src: &str) -> Result<forc_pkg::CompiledPackage> {
        self.std()?;
        self.compiled += 1;
        let dir = self.work.join(format!("chk{}", self.counter));
        self.counter += 1;
        write_pkg(&dir, "c14run", src, true)?;
        let r = (|| {
            let (engines, std_ns) = self.cache.as_ref().unwrap();
            let plan = BuildPlan::from_pkg_opts(&PkgOpts { path: Some(dir.to_string_lossy().to_string()), offline: true, terse: true, ..Default::default() })?;
            let graph = plan.graph();
            let std_node = graph.node_indices().find(|n| graph[*n].name == "std").ok_or_else(|| anyhow!("no std node"))?;
            let node = plan.member_nodes().next().ok_or_else(|| anyhow!("no member"))?;
            let pkg = &graph[node];
            let manifest = &plan.manifest_map()[&pkg.id()];
            let bp = BuildProfile::debug();
            let dbg = DbgGeneration::Full;
            let experimental = ExperimentalFeatures::new(&manifest.project.experimental, &[], &[]).map_err(|e| anyhow!("{e}"))?;
            let descriptor = PackageDescriptor { name: pkg.name.clone(), target: BuildTarget::Fuel, pinned: pkg.clone(), manifest_file: manifest.clone() };
            let program_id = engines.se().get_or_create_program_id_from_manifest_path(&manifest.entry_path());
            let mut libs = HashMap::default();
            libs.insert(std_node, std_ns.clone());
            let ns = forc_pkg::dependency_namespace(&libs, &HashMap::new(), graph, node, engines, None, program_id, experimental, dbg).map_err(|e| anyhow!("namespace: {:?}", e.first()))?;
            let mut sm = sway_core::source_map::SourceMap::new();
            forc_pkg::compile(&descriptor, &bp, engines, ns, &mut sm, experimental, dbg)
        })();
        let _ = std::fs::remove_dir_all(&dir);
        r
    }
    /// first error of a rejected program, for the notes
    pub fn first_error(&mut self, src: &str) -> String {
        match self.check(src) {
            Ok(d) => d.errors.first().map(|e| format!("{e} @{}", e.span().start_line_col_one_index().line)).unwrap_or_else(|| "no front end error (rejected by a later stage)".into()),
            Err(e) => format!("front end failed: {e}"),
        }
    }
    fn check_dir(&mut self, dir: &Path) -> Result<Diagnostics> {
        let (engines, std_ns) = self.cache.as_ref().unwrap();
        let plan = BuildPlan::from_pkg_opts(&PkgOpts { path: Some(dir.to_string_lossy().to_string()), offline: true, terse: true, ..Default::default() })?;
        let graph = plan.graph();
        let std_node = graph.node_indices().find(|n| graph[*n].name == "std").ok_or_else(|| anyhow!("no std node"))?;
        let node = plan.member_nodes().next().ok_or_else(|| anyhow!("no member"))?;
        let pkg = &graph[node];
        let manifest = &plan.manifest_map()[&pkg.id()];
        let bp = BuildProfile::debug();
        let dbg = DbgGeneration::Full;
        let experimental = ExperimentalFeatures::new(&manifest.project.experimental, &[], &[]).map_err(|e| anyhow!("{e}"))?;
        let program_id = engines.se().get_or_create_program_id_from_manifest_path(&manifest.entry_path());
        let mut libs = HashMap::default();
        libs.insert(std_node, std_ns.clone());
        let ns = forc_pkg::dependency_namespace(&libs, &HashMap::new(), graph, node, engines, None, program_id, experimental, dbg).map_err(|e| anyhow!("namespace: {:?}", e.first()))?;
        let cfg = forc_pkg::sway_build_config(manifest.dir(), &manifest.entry_path(), BuildTarget::Fuel, &bp, dbg)?;
        let handler = sway_error::handler::Handler::default();
        let source = manifest.entry_string()?;
        let _ = sway_core::compile_to_ast(&handler, engines, source, ns, Some(&cfg), &pkg.name, None, experimental);
        let (errors, warnings, _) = handler.consume();
        Ok(Diagnostics { errors, warnings })
    }
}

// ------------------------------------------------------------------------------------------
// Oracle

/// What the compiler said about one matrix.
#[derive(Clone, Debug, Default)]
pub struct FnDiag {
    /// `missing_patterns` of the non-exhaustive error, if any
    pub non_exhaustive: Option<String>,
    /// arms flagged unreachable
    pub flagged: BTreeSet<usize>,
    /// any other error inside the function (makes the matrix inconclusive)
    pub other_errors: Vec<String>,
}

pub struct Expected {
    pub vals: Vec<MV>,
    /// first matching arm of every value
    pub first: Vec<Option<usize>>,
    pub uncovered: usize,
    /// arm i is reached first by some value
    pub reachable: Vec<bool>,
}

pub fn expected(m: &Matrix, d: &Decls) -> Expected {
    let vals = values(&m.ty, d, &m.pools);
    let first: Vec<Option<usize>> = vals.iter().map(|v| first_match(&m.arms, v)).collect();
    let uncovered = first.iter().filter(|f| f.is_none()).count();
    let mut reachable = vec![false; m.arms.len()];
    for f in first.iter().flatten() {
        reachable[*f] = true;
    }
    Expected { vals, first, uncovered, reachable }
}

/// The compiler's own notion of an arm that matches everything (`is_catch_all`): used only to
/// give violations a precise signature, never to excuse one.
fn is_catch_all(p: &P) -> bool {
    match p {
        P::Wild | P::Bind(_) => true,
        P::Or(ps) => ps.iter().any(is_catch_all),
        P::Tuple(ps) => ps.iter().all(is_catch_all),
        P::Struct(_, fs, _) => fs.iter().all(|(_, p)| is_catch_all(p)),
        _ => false,
    }
}

pub fn matrix_text(m: &Matrix) -> String {
    format!("match x: {} {{ {} }}", m.ty.name(), m.arms.iter().map(print_pat).collect::<Vec<_>>().join(" => .., "))
}

pub fn matrix_hash(m: &Matrix, d: &Decls) -> u64 {
    // the declarations reachable from the type matter too
    let mut s = matrix_text(m);
    for (i, e) in d.enums.iter().enumerate() {
        s.push_str(&format!("|E{i}:{}", e.iter().map(|p| p.as_ref().map(|t| t.name()).unwrap_or_default()).collect::<Vec<_>>().join(",")));
    }
    for (i, f) in d.structs.iter().enumerate() {
        s.push_str(&format!("|S{i}:{}", f.iter().map(|t| t.name()).collect::<Vec<_>>().join(",")));
    }
    hash64(s.as_bytes())
}

pub struct Finding {
    pub kind: String,
    pub desc: String,
}

/// A pattern with named constants replaced by their literals (to compare alternatives).
fn normalised(p: &P) -> P {
    match p {
        P::Const(b, v) => P::Lit(*b, *v),
        P::Bind(_) => P::Wild,
        P::Variant(e, k, q) => P::Variant(*e, *k, q.as_ref().map(|q| Box::new(normalised(q)))),
        P::Tuple(ps) => P::Tuple(ps.iter().map(normalised).collect()),
        P::Or(ps) => P::Or(ps.iter().map(normalised).collect()),
        P::Struct(s, fs, r) => P::Struct(*s, fs.iter().map(|(k, q)| (*k, normalised(q))).collect(), *r),
        other => other.clone(),
    }
}

/// An or-pattern of the alternatives without repetitions (`3u8 | C8_3`, `true | true`): repeated
/// alternatives trigger the known internal compiler error "Cannot compile CBR with both branches
/// going to same dest block" in release builds, which would void the run-time check of the batch.
fn or_of(alts: Vec<P>) -> P {
    let mut out: Vec<P> = vec![];
    for a in alts {
        if !out.iter().any(|o| normalised(o) == normalised(&a)) {
            out.push(a);
        }
    }
    if out.len() == 1 {
        out.pop().unwrap()
    } else {
        P::Or(out)
    }
}

/// Constructor class of the head of a pattern (all integer literals are one class).
fn head_class(p: &P) -> u32 {
    match p {
        P::Wild | P::Bind(_) => 0,
        P::Bool(b) => 1 + *b as u32,
        P::Lit(..) | P::Const(..) => 3,
        P::Tuple(_) => 4,
        P::Struct(..) => 5,
        P::Or(_) => 6,
        P::Variant(_, k, _) => 10 + *k as u32,
    }
}

fn any_node(p: &P, f: &dyn Fn(&P) -> bool) -> bool {
    if f(p) {
        return true;
    }
    match p {
        P::Variant(_, _, Some(q)) => any_node(q, f),
        P::Tuple(ps) | P::Or(ps) => ps.iter().any(|q| any_node(q, f)),
        P::Struct(_, fs, _) => fs.iter().any(|(_, q)| any_node(q, f)),
        _ => false,
    }
}

/// an or-pattern whose alternatives do not all start with a constructor of one class
fn has_mixed_or(p: &P) -> bool {
    any_node(p, &|q| match q {
        P::Or(alts) => alts.iter().map(head_class).collect::<BTreeSet<_>>().len() > 1,
        _ => false,
    })
}

/// an or-pattern with an alternative that matches everything next to one that does not
fn has_or_with_irrefutable_alternative(p: &P) -> bool {
    any_node(p, &|q| match q {
        P::Or(alts) => alts.iter().any(is_catch_all) && !alts.iter().all(is_catch_all),
        _ => false,
    })
}

/// a struct pattern that does not list every field in declaration order
fn has_partial_struct_pattern(p: &P, d: &Decls) -> bool {
    any_node(p, &|q| match q {
        P::Struct(s, fs, _) => fs.len() != d.structs[*s].len() || fs.iter().enumerate().any(|(i, (k, _))| i != *k),
        _ => false,
    })
}

/// the scrutinee has a tuple or struct with two or more components somewhere
fn multi_column(t: &MT, d: &Decls) -> bool {
    match t {
        MT::Bool | MT::Int(_) => false,
        MT::Enum(e) => d.enums[*e].iter().flatten().any(|t| multi_column(t, d)),
        MT::Struct(s) => d.structs[*s].len() >= 2 || d.structs[*s].iter().any(|t| multi_column(t, d)),
        MT::Tuple(ts) => ts.len() >= 2 || ts.iter().any(|t| multi_column(t, d)),
    }
}

/// a wildcard or binding below the top of a pattern of a scrutinee with several columns
fn has_nested_catch_all(p: &P) -> bool {
    match p {
        P::Wild | P::Bind(_) => false,
        _ => any_node(p, &|q| matches!(q, P::Wild | P::Bind(_)) || matches!(q, P::Struct(_, _, true))),
    }
}

fn has_or(p: &P) -> bool {
    any_node(p, &|q| matches!(q, P::Or(_)))
}

pub const CLASS_WILD_COLUMN: &str = "catch-all-inside-a-pattern-of-a-scrutinee-with-several-columns";
pub const CLASS_OR_WITNESS: &str = "matrix-with-an-or-pattern";
pub const CLASS_STRUCT: &str = "struct-pattern-not-listing-every-field-in-declaration-order";
pub const CLASS_OR: &str = "or-pattern-with-alternatives-of-different-constructors";
pub const CLASS_WITNESS: &str = "scrutinee-with-several-columns";
pub const CLASS_OR_RUNTIME: &str = "or-pattern-with-an-irrefutable-alternative";
#[allow(dead_code)]
pub const CLASS_INTERIOR: &str = "first-interior-catch-all-arm";

/// The pattern shape of the matrix behind a known analysis defect of the unchanged tree, if it
/// has one. A finding on a matrix of such a shape gets the class in its signature (so that it can
/// be listed once in known_findings.d); a finding on any other matrix gets the hash of the matrix.
fn defect_class(m: &Matrix, d: &Decls, witness_finding: bool) -> Option<&'static str> {
    if m.arms.iter().any(|p| has_partial_struct_pattern(p, d)) {
        Some(CLASS_STRUCT)
    } else if m.arms.iter().any(has_mixed_or) {
        Some(CLASS_OR)
    } else if multi_column(&m.ty, d) && m.arms.iter().any(has_nested_catch_all) {
        Some(CLASS_WILD_COLUMN)
    } else if witness_finding && m.arms.iter().any(has_or) {
        Some(CLASS_OR_WITNESS)
    } else if witness_finding && multi_column(&m.ty, d) {
        Some(CLASS_WITNESS)
    } else {
        None
    }
}

/// Checks (i)..(iv) of one matrix against the compiler's diagnostics.
pub fn judge_diagnostics(m: &Matrix, d: &Decls, ex: &Expected, diag: &FnDiag, res: &mut ShardResult) -> Vec<Finding> {
    let mut out = vec![];
    let example_uncovered = || ex.vals.iter().zip(&ex.first).find(|(_, f)| f.is_none()).map(|(v, _)| print_value(v, &m.ty, d)).unwrap_or_default();
    match (&diag.non_exhaustive, ex.uncovered > 0) {
        (None, true) => out.push(Finding { kind: "accepted-although-a-value-is-uncovered".into(), desc: format!("no arm matches `{}` ({} of {} value classes uncovered) but the match is accepted as exhaustive", example_uncovered(), ex.uncovered, ex.vals.len()) }),
        (Some(missing), false) => out.push(Finding { kind: "rejected-although-all-values-are-covered".into(), desc: format!("all {} value classes are matched by some arm but the match is rejected as non-exhaustive (missing: {missing})", ex.vals.len()) }),
        (Some(missing), true) => {
            // (iii) every witness must consist of uncovered values only
            let ws = split_witnesses(missing);
            if ws.is_empty() {
                out.push(Finding { kind: "no-witness-reported".into(), desc: format!("non-exhaustive error without a witness: `{missing}`") });
            }
            for wt in ws {
                let w = match parse_witness(&wt) {
                    Ok(w) => w,
                    Err(e) => {
                        out.push(Finding { kind: "witness-not-a-pattern".into(), desc: format!("witness `{wt}` is not a pattern ({e}); all witnesses: {missing}") });
                        continue;
                    }
                };
                let mut met = 0;
                let mut covered: Option<(String, usize)> = None;
                let mut ill = None;
                for (v, f) in ex.vals.iter().zip(&ex.first) {
                    match witness_meets(&w, &m.ty, v, d, &m.pools) {
                        Err(e) => {
                            ill = Some(e);
                            break;
                        }
                        Ok(false) => {}
                        Ok(true) => {
                            met += 1;
                            if let (Some(arm), None) = (f, &covered) {
                                covered = Some((print_value(v, &m.ty, d), *arm));
                            }
                        }
                    }
                }
                if let Some(e) = ill {
                    out.push(Finding { kind: "witness-is-not-a-pattern-of-the-scrutinee-type".into(), desc: format!("witness `{wt}`: {e}; all witnesses: {missing}") });
                } else if met == 0 {
                    out.push(Finding { kind: "witness-matches-no-value".into(), desc: format!("witness `{wt}` matches no value of the type; all witnesses: {missing}") });
                } else if let Some((v, arm)) = covered {
                    out.push(Finding { kind: "witness-is-covered".into(), desc: format!("witness `{wt}` contains `{v}`, which arm {arm} `{}` matches; all witnesses: {missing}", print_pat(&m.arms[arm])) });
                } else {
                    res.count("witnesses_validated");
                    let mut shapes = BTreeSet::new();
                    witness_shapes(&w, &mut shapes);
                    for s in shapes {
                        res.count(&format!("witness.{s}"));
                    }
                }
            }
        }
        (None, false) => {}
    }
    // (iv) reachability
    for (i, p) in m.arms.iter().enumerate() {
        let flagged = diag.flagged.contains(&i);
        match (ex.reachable[i], flagged) {
            (true, false) => res.count("arms_reachable_and_not_flagged"),
            (false, true) => res.count("arms_unreachable_and_flagged"),
            (true, true) => {
                let v = ex.vals.iter().zip(&ex.first).find(|(_, f)| **f == Some(i)).map(|(v, _)| print_value(v, &m.ty, d)).unwrap_or_default();
                out.push(Finding { kind: "reachable-arm-flagged-unreachable".into(), desc: format!("arm {i} `{}` is flagged unreachable but `{v}` reaches it first", print_pat(p)) });
            }
            (false, false) => {
                // (the first interior catch-all arm used to be skipped by the compiler: class
                // `first-interior-catch-all-arm`, repaired by 7ffe142; no special signature any more)
                let kind = "unreachable-arm-not-flagged".to_string();
                out.push(Finding { kind, desc: format!("arm {i} `{}` matches no value left by the earlier arms but is not flagged unreachable", print_pat(p)) });
            }
        }
    }
    out
}

fn pattern_counters(p: &P, res: &mut ShardResult, nested_in_or: bool) {
    match p {
        P::Wild => res.count("pattern.wildcard"),
        P::Bind(_) => res.count("pattern.binding"),
        P::Bool(_) => res.count("pattern.bool_literal"),
        P::Lit(..) => res.count("pattern.literal"),
        P::Const(..) => res.count("pattern.constant"),
        P::Variant(_, _, p) => {
            res.count("pattern.enum_variant");
            if let Some(p) = p {
                pattern_counters(p, res, nested_in_or);
            }
        }
        P::Tuple(ps) => {
            res.count("pattern.tuple");
            ps.iter().for_each(|p| pattern_counters(p, res, nested_in_or));
        }
        P::Struct(_, fs, rest) => {
            res.count(if *rest { "pattern.struct_with_rest" } else { "pattern.struct_all_fields" });
            fs.iter().for_each(|(_, p)| pattern_counters(p, res, nested_in_or));
        }
        P::Or(ps) => {
            res.count("pattern.or");
            ps.iter().for_each(|p| pattern_counters(p, res, true));
        }
    }
}

fn or_is_nested(p: &P, top: bool) -> bool {
    match p {
        P::Or(ps) => !top || ps.iter().any(|p| or_is_nested(p, false)),
        P::Variant(_, _, Some(p)) => or_is_nested(p, false),
        P::Tuple(ps) => ps.iter().any(|p| or_is_nested(p, false)),
        P::Struct(_, fs, _) => fs.iter().any(|(_, p)| or_is_nested(p, false)),
        _ => false,
    }
}

/// Representatives to run: every class value (or a sample), with gap classes represented by a
/// random end of the gap.
fn runtime_values(m: &Matrix, ex: &Expected, rng: &mut StdRng, cap: usize, decls: &Decls) -> Vec<(MV, usize)> {
    let mut idx: Vec<usize> = vec![];
    // one value per reachable arm first
    for a in 0..m.arms.len() {
        if let Some(i) = ex.first.iter().position(|f| *f == Some(a)) {
            idx.push(i);
        }
    }
    let mut rest: Vec<usize> = (0..ex.vals.len()).filter(|i| ex.first[*i].is_some() && !idx.contains(i)).collect();
    while idx.len() < cap && !rest.is_empty() {
        let j = rng.gen_range(0..rest.len());
        idx.push(rest.swap_remove(j));
    }
    fn vary(v: &MV, t: &MT, d_pools: &Pools, rng: &mut StdRng, decls: &Decls) -> MV {
        match (v, t) {
            (MV::Int(x), MT::Int(bits)) => {
                let (lo, hi) = d_pools.class_of(*bits, *x);
                MV::Int(match rng.gen_range(0..3) {
                    0 => lo,
                    1 => hi,
                    _ => rng.gen_range(lo..=hi),
                })
            }
            (MV::Enum(k, Some(p)), MT::Enum(e)) => MV::Enum(*k, Some(Box::new(vary(p, decls.enums[*e][*k].as_ref().unwrap(), d_pools, rng, decls)))),
            (MV::Struct(vs), MT::Struct(s)) => MV::Struct(vs.iter().enumerate().map(|(k, v)| vary(v, &decls.structs[*s][k], d_pools, rng, decls)).collect()),
            (MV::Tuple(vs), MT::Tuple(ts)) => MV::Tuple(vs.iter().zip(ts).map(|(v, t)| vary(v, t, d_pools, rng, decls)).collect()),
            _ => v.clone(),
        }
    }
    idx.into_iter().map(|i| (vary(&ex.vals[i], &m.ty, &m.pools, rng, decls), ex.first[i].unwrap())).collect()
}

// ------------------------------------------------------------------------------------------
// One batch

pub struct Engines2 {
    pub checker: Checker,
    pub am: Amortised,
    /// a second pair of compiler instances with a short history: a finding that is not one of the
    /// known classes is only reported when it shows on these too (the main instances are reused
    /// for hundreds of packages, which forc never does)
    fresh: Option<(Checker, Amortised)>,
    fresh_uses: u32,
    work: PathBuf,
}

impl Engines2 {
    pub fn new(work: &Path) -> Self {
        Engines2 { checker: Checker::new(&work.join("chk")), am: Amortised::new(work), fresh: None, fresh_uses: 0, work: work.to_path_buf() }
    }
    fn fresh(&mut self) -> &mut (Checker, Amortised) {
        if self.fresh.is_none() || self.fresh_uses >= 25 {
            let w = self.work.join("confirm");
            clean_dir(&w);
            self.fresh = Some((Checker::new(&w.join("chk")), Amortised::new(&w)));
            self.fresh_uses = 0;
        }
        self.fresh_uses += 1;
        self.fresh.as_mut().unwrap()
    }
}

/// Does a fresh compiler instance show a finding of `kind` for matrix `i` alone? None = could not be decided.
fn confirm_diag(eng: &mut Engines2, b: &Batch, i: usize, kind: &str) -> Option<bool> {
    let single = Batch { decls: b.decls.clone(), fns: vec![b.fns[i].clone()] };
    let (src, lines) = diag_source(&single);
    let (chk, _) = eng.fresh();
    let diags = catch(AssertUnwindSafe(|| chk.check(&src))).ok()?.ok()?;
    let fd = attribute(&diags, &lines, 1).ok()?;
    if !fd[0].other_errors.is_empty() {
        return None;
    }
    let ex = expected(&single.fns[0], &single.decls);
    let mut scratch = ShardResult::default();
    Some(judge_diagnostics(&single.fns[0], &single.decls, &ex, &fd[0], &mut scratch).iter().any(|f| f.kind == kind))
}

/// Does matrix `i` alone, compiled by a fresh compiler instance, select another arm than `want` for `v`?
fn confirm_run(eng: &mut Engines2, b: &Batch, i: usize, v: &MV, want: usize, profile: Profile) -> Option<bool> {
    let single = Batch { decls: b.decls.clone(), fns: vec![b.fns[i].clone()] };
    let src = run_source(&single, &[(0, v.clone())]);
    let (chk, am) = eng.fresh();
    let bytecode = catch(AssertUnwindSafe(|| match profile {
        Profile::Debug => chk.compile_debug(&src).map(|p| p.bytecode.bytes),
        Profile::Release => am.compile("c14run", &src, profile).map(|c| {
            let b = c.pkg.bytecode.bytes.clone();
            am.remove(&c);
            b
        }),
    }))
    .ok()?
    .ok()?;
    let obs = run_script(&bytecode, &0u64.to_be_bytes());
    let got = match &obs.outcome {
        Outcome::Return(a) => Some(*a),
        Outcome::ReturnData(d) if d.len() == 8 => Some(u64::from_be_bytes(d[..].try_into().unwrap())),
        Outcome::VmError(_) => return None,
        _ => None,
    };
    Some(got != Some(want as u64))
}

fn attribute(diags: &Diagnostics, lines: &[FnLines], nfns: usize) -> Result<Vec<FnDiag>, String> {
    let mut out = vec![FnDiag::default(); nfns];
    let find = |line: usize| lines.iter().position(|l| l.first <= line && line <= l.last);
    for e in &diags.errors {
        let line = e.span().start_line_col_one_index().line;
        let Some(f) = find(line) else {
            return Err(format!("error outside the match functions at line {line}: {e}"));
        };
        match e {
            CompileError::MatchExpressionNonExhaustive { missing_patterns, .. } => {
                if out[f].non_exhaustive.is_some() && out[f].non_exhaustive.as_deref() != Some(missing_patterns.as_str()) {
                    out[f].other_errors.push("two different non-exhaustive errors".into());
                }
                out[f].non_exhaustive = Some(missing_patterns.clone());
            }
            other => out[f].other_errors.push(format!("{other}")),
        }
    }
    for w in &diags.warnings {
        if let Warning::MatchExpressionUnreachableArm { unreachable_arm, .. } = &w.warning_content {
            let line = unreachable_arm.start_line_col_one_index().line;
            let Some(f) = find(line) else {
                return Err(format!("unreachable-arm warning outside the match functions at line {line}"));
            };
            match lines[f].arm_lines.iter().position(|l| *l == line) {
                Some(a) => {
                    out[f].flagged.insert(a);
                }
                None => out[f].other_errors.push(format!("unreachable-arm warning at line {line}, which is not an arm")),
            }
        }
    }
    Ok(out)
}

pub fn run_batch(eng: &mut Engines2, b: &Batch, rng: &mut StdRng, res: &mut ShardResult, replay: &Value, only_fn: Option<usize>) {
    let (src, lines) = diag_source(b);
    let diags = match catch(AssertUnwindSafe(|| eng.checker.check(&src))) {
        Err((loc, msg)) => {
            res.count("front_end_panics");
            res.inconclusive(format!("front end panicked at {loc}: {}", msg.chars().take(120).collect::<String>()));
            let keep = work_dir("rejected").join(format!("C14_panic_{:016x}.sw", hash64(loc.as_bytes())));
            if !keep.exists() {
                let _ = std::fs::write(&keep, format!("// {loc}: {msg}\n{src}"));
            }
            // the engines may be in an inconsistent state
            eng.checker.cache = None;
            return;
        }
        Ok(Err(e)) => {
            res.count("front_end_failed");
            res.inconclusive(format!("front end could not be run: {e}"));
            return;
        }
        Ok(Ok(d)) => d,
    };
    let fdiags = match attribute(&diags, &lines, b.fns.len()) {
        Ok(f) => f,
        Err(e) => {
            res.count("batches_unattributable");
            res.inconclusive(format!("batch skipped: {e}"));
            let keep = work_dir("rejected").join(format!("C14_unattributable_{:016x}.sw", hash64(e.as_bytes()) % 16));
            if !keep.exists() {
                let _ = std::fs::write(&keep, format!("// {e}\n{src}"));
            }
            return;
        }
    };
    res.count("batches");
    // per matrix: diagnostics
    let mut runnable: Vec<usize> = vec![];
    let mut exps: Vec<Option<Expected>> = vec![];
    let mut nontrivial_diag: Vec<bool> = vec![false; b.fns.len()];
    for (i, m) in b.fns.iter().enumerate() {
        if only_fn.map(|o| o != i).unwrap_or(false) {
            exps.push(None);
            continue;
        }
        let d = &fdiags[i];
        if !d.other_errors.is_empty() {
            res.count("matrices_with_other_errors");
            let msg = &d.other_errors[0];
            res.count(&format!("other_error.{}", crate::swrun::bucket(msg)));
            res.inconclusive(format!("matrix got another diagnostic: {} :: {}", msg.chars().take(120).collect::<String>(), matrix_text(m).chars().take(200).collect::<String>()));
            let keep = work_dir("rejected").join(format!("C14_other_{}.txt", crate::swrun::bucket(msg).replace([' ', '#'], "_")));
            if !keep.exists() {
                let _ = std::fs::write(&keep, format!("{msg}\n{}\n\n{src}", matrix_text(m)));
            }
            exps.push(None);
            continue;
        }
        res.evaluations += 1;
        res.count("matrices");
        res.count(&format!("mode.{}", m.mode));
        res.count(if m.clean { "dialect.without_known_defect_shapes" } else { "dialect.all_shapes" });
        if defect_class(m, &b.decls, false).is_none() {
            res.count("matrices_fully_checked_i_ii_iv");
            if defect_class(m, &b.decls, true).is_none() {
                res.count("matrices_fully_checked_witnesses");
            }
        }
        res.count(&format!("scrutinee.{}", m.ty.shape()));
        res.count(&format!("scrutinee_depth.{}", m.ty.depth(&b.decls)));
        res.count(&format!("arms.{}", m.arms.len()));
        for p in &m.arms {
            pattern_counters(p, res, false);
            if or_is_nested(p, true) {
                res.count("pattern.or_nested");
            }
        }
        let ex = expected(m, &b.decls);
        res.max("max_value_classes", ex.vals.len() as u64);
        res.add("value_classes_enumerated", ex.vals.len() as u64);
        res.count(if ex.uncovered > 0 { "expected.non_exhaustive" } else { "expected.exhaustive" });
        res.count(if d.non_exhaustive.is_some() { "compiler.rejected_non_exhaustive" } else { "compiler.accepted" });
        res.add("unreachable_arms.expected", ex.reachable.iter().filter(|r| !**r).count() as u64);
        res.add("unreachable_arms.reported", d.flagged.len() as u64);
        let before = res.counters.get("witnesses_validated").copied().unwrap_or(0);
        let findings = judge_diagnostics(m, &b.decls, &ex, d, res);
        if m.arms.len() >= 2 && res.counters.get("witnesses_validated").copied().unwrap_or(0) > before {
            nontrivial_diag[i] = true;
        }
        let mut kinds_of_this_matrix = BTreeSet::new();
        for f in findings {
            // one report per (matrix, kind); a finding of a known-defect class is reported once
            // per shard and counted afterwards, so that the per-shard cap on violations is left to
            // findings that are not listed
            if !kinds_of_this_matrix.insert(f.kind.clone()) {
                continue;
            }
            let mut r = replay.clone();
            r["fn"] = json!(i);
            r["matrix"] = json!(matrix_text(m));
            let sig = if f.kind.contains(':') {
                f.kind.clone()
            } else {
                match defect_class(m, &b.decls, f.kind.starts_with("witness") || f.kind == "no-witness-reported") {
                    Some(c) => format!("{}:{c}", f.kind),
                    None => format!("{}:{:016x}", f.kind, matrix_hash(m, &b.decls)),
                }
            };
            let is_class = !sig.rsplit(':').next().map(|h| h.len() == 16 && h.chars().all(|c| c.is_ascii_hexdigit())).unwrap_or(false);
            let key = format!("finding.{}", if is_class { sig.as_str() } else { f.kind.as_str() });
            let seen_before = res.counters.contains_key(&key);
            res.count(&key);
            if is_class && seen_before {
                continue;
            }
            if !is_class {
                match confirm_diag(eng, b, i, &f.kind) {
                    Some(true) => res.count("findings_confirmed_by_fresh_compiler"),
                    Some(false) => {
                        res.count("not_reproduced_with_fresh_compiler");
                        res.inconclusive(format!("finding not reproduced by a fresh compiler instance (artefact of reusing one instance), not reported: {} :: {}", f.desc.chars().take(160).collect::<String>(), matrix_text(m).chars().take(200).collect::<String>()));
                        continue;
                    }
                    None => {
                        res.count("fresh_compiler_recheck_failed");
                        res.inconclusive(format!("finding could not be re-checked with a fresh compiler instance, not reported: {}", f.desc.chars().take(160).collect::<String>()));
                        continue;
                    }
                }
            }
            res.violation(sig, format!("{} :: {}", f.desc, matrix_text(m)), r);
        }
        if d.non_exhaustive.is_none() && ex.uncovered == 0 {
            runnable.push(i);
        }
        if res.samples.len() < 3 && m.arms.len() >= 3 && (d.non_exhaustive.is_some() || !d.flagged.is_empty()) {
            res.sample(json!({"matrix": matrix_text(m), "compiler_missing_patterns": d.non_exhaustive, "compiler_flagged_unreachable_arms": d.flagged, "brute_force_uncovered_classes": ex.uncovered, "brute_force_reachable": ex.reachable, "value_classes": ex.vals.len()}));
        }
        if nontrivial_diag[i] {
            res.note_nontrivial(matrix_hash(m, &b.decls));
        }
        exps.push(Some(ex));
    }
    // phase 2: run the accepted matrices
    if runnable.is_empty() {
        return;
    }
    let mut runs: Vec<(usize, MV)> = vec![];
    let mut want: Vec<usize> = vec![];
    for i in &runnable {
        let ex = exps[*i].as_ref().unwrap();
        for (v, arm) in runtime_values(&b.fns[*i], ex, rng, 10, &b.decls) {
            runs.push((*i, v));
            want.push(arm);
        }
    }
    let rsrc = run_source(b, &runs);
    for profile in Profile::BOTH {
        let compiled = catch(AssertUnwindSafe(|| match profile {
            Profile::Debug => eng.checker.compile_debug(&rsrc).map(|p| p.bytecode.bytes),
            Profile::Release => eng.am.compile("c14run", &rsrc, profile).map(|c| {
                let b = c.pkg.bytecode.bytes.clone();
                eng.am.remove(&c);
                b
            }),
        }));
        let bytecode = match compiled {
            Err((loc, msg)) => {
                res.count("compiler_panics");
                res.inconclusive(format!("compiler panicked at {loc}: {}", msg.chars().take(120).collect::<String>()));
                if profile == Profile::Release {
                    let _ = std::fs::remove_dir_all(eng.am.last_dir());
                } else {
                    eng.checker.cache = None;
                }
                continue;
            }
            Ok(Err(_)) => {
                res.count("run_program_rejected");
                if profile == Profile::Release {
                    let _ = std::fs::remove_dir_all(eng.am.last_dir());
                }
                let msg = eng.checker.first_error(&rsrc);
                res.count(&format!("run_program_rejected.{}", crate::swrun::bucket(&msg)));
                res.inconclusive(format!("program of accepted matrices rejected ({}): {}", profile.name(), msg.chars().take(160).collect::<String>()));
                let keep = work_dir("rejected").join(format!("C14_run_{}_{}.sw", profile.name(), crate::swrun::bucket(&msg).replace([' ', '#'], "_")));
                if !keep.exists() {
                    let _ = std::fs::write(&keep, format!("// {msg}\n{rsrc}"));
                }
                continue;
            }
            Ok(Ok(b)) => b,
        };
        res.count(&format!("run_programs.{}", profile.name()));
        let mut arms_seen: BTreeMap<usize, BTreeSet<usize>> = BTreeMap::new();
        for (j, (i, v)) in runs.iter().enumerate() {
            let obs = run_script(&bytecode, &(j as u64).to_be_bytes());
            res.count("runtime.selections");
            res.count(&format!("runtime.selections.{}", profile.name()));
            let got = match &obs.outcome {
                Outcome::Return(a) => Some(*a),
                Outcome::ReturnData(d) if d.len() == 8 => Some(u64::from_be_bytes(d[..].try_into().unwrap())),
                Outcome::VmError(e) => {
                    res.inconclusive(format!("the VM refused the script: {e}"));
                    continue;
                }
                _ => None,
            };
            if got == Some(want[j] as u64) {
                arms_seen.entry(*i).or_default().insert(want[j]);
                continue;
            }
            let m = &b.fns[*i];
            let mut r = replay.clone();
            r["fn"] = json!(i);
            r["matrix"] = json!(matrix_text(m));
            let known_class = has_or_with_irrefutable_alternative(&m.arms[want[j]]);
            let class = if known_class { CLASS_OR_RUNTIME.to_string() } else { format!("{:016x}", matrix_hash(m, &b.decls)) };
            let key = format!("finding.run-time-arm-is-not-the-first-matching-arm{}", if known_class { format!(":{class}") } else { String::new() });
            let seen_before = res.counters.contains_key(&key);
            res.count(&key);
            if known_class && seen_before {
                continue;
            }
            if !known_class {
                match confirm_run(eng, b, *i, v, want[j], profile) {
                    Some(true) => res.count("findings_confirmed_by_fresh_compiler"),
                    Some(false) => {
                        res.count("not_reproduced_with_fresh_compiler");
                        res.inconclusive(format!("run-time finding not reproduced by a fresh compiler instance, not reported: {} :: {}", obs.short(), matrix_text(m).chars().take(200).collect::<String>()));
                        continue;
                    }
                    None => {
                        res.count("fresh_compiler_recheck_failed");
                        res.inconclusive("run-time finding could not be re-checked with a fresh compiler instance, not reported");
                        continue;
                    }
                }
            }
            res.violation(
                format!("run-time-arm-is-not-the-first-matching-arm:{class}"),
                format!("[{}] `{}` must select arm {} `{}`; observed {} :: {}", profile.name(), print_value(v, &m.ty, &b.decls), want[j], print_pat(&m.arms[want[j]]), obs.short(), matrix_text(m)),
                r,
            );
        }
        for (i, seen) in arms_seen {
            if seen.len() >= 2 {
                res.count("matrices_run_selecting_several_arms");
                res.note_nontrivial(matrix_hash(&b.fns[i], &b.decls));
            }
        }
    }
}

fn batch_at(seed: u64, shard: u64, index: u64) -> (Batch, StdRng) {
    let mut rng = rng_for(seed ^ 0x0c14, shard, index);
    let n = rng.gen_range(16..=26);
    let b = gen_batch(&mut rng, n);
    (b, rng)
}

fn shard(ctx: &ShardCtx) -> ShardResult {
    let mut res = ShardResult::default();
    let mut eng = Engines2::new(&ctx.work());
    // std once for the front end + debug builds (own handler) and once for release builds
    let warm_release = eng.am.compile("c14warm", "script;\n\nfn main() -> u64 {\n    0u64\n}\n", Profile::Release).map(|c| eng.am.remove(&c));
    if let Err(e) = eng.checker.warm().and(warm_release) {
        res.harness_fault = Some(format!("std does not compile: {e}"));
        return res;
    }
    let mut i = ctx.first_index;
    // the time budget bounds the exploration, it is not a verdict: on an overloaded machine the
    // compilation of std alone can exceed it, so a minimum number of batches is always run
    let warm_end = std::time::Instant::now();
    while ctx.time_left() || warm_end.elapsed().as_secs() < 20 || (ctx.first_index == 0 && i < MIN_BATCHES) {
        let (b, mut rng) = batch_at(ctx.seed, ctx.shard, i);
        let (src, _) = diag_source(&b);
        journal_current(ctx, &src);
        ctx.begin_case(i, &src, &res);
        let replay = json!({"seed": ctx.seed, "shard": ctx.shard, "index": i});
        run_batch(&mut eng, &b, &mut rng, &mut res, &replay, None);
        ctx.end_case();
        i += 1;
    }
    res
}

fn replay(case: &Value) -> ShardResult {
    let mut res = ShardResult::default();
    let (Some(seed), Some(shard), Some(index)) = (case.get("seed").and_then(|v| v.as_u64()), case.get("shard").and_then(|v| v.as_u64()), case.get("index").and_then(|v| v.as_u64())) else {
        res.harness_fault = Some("replay file lacks seed/shard/index".into());
        return res;
    };
    let (b, mut rng) = batch_at(seed, shard, index);
    let only = case.get("fn").and_then(|v| v.as_u64()).map(|v| v as usize);
    if let (Some(f), Some(text)) = (only, case.get("matrix").and_then(|v| v.as_str())) {
        if b.fns.get(f).map(matrix_text).as_deref() != Some(text) {
            res.harness_fault = Some("the generator no longer reproduces the recorded matrix (see `matrix` in the replay file)".into());
            return res;
        }
    }
    let work = work_dir("C14").join("replay");
    clean_dir(&work);
    let mut eng = Engines2::new(&work);
    run_batch(&mut eng, &b, &mut rng, &mut res, case, only);
    res
}

// ------------------------------------------------------------------------------------------
// Tools: `swverif c14-diag <file.sw>` prints the structured diagnostics of a script;
// `swverif c14-show <seed> <shard> <index>` prints a generated batch;
// `swverif c14-selftest` feeds the oracle tampered observations.

fn subcommand(args: &[String]) -> Option<i32> {
    match args.first().map(|s| s.as_str()) {
        Some("c14-diag") => {
            let src = std::fs::read_to_string(&args[1]).expect("read source");
            let mut chk = Checker::new(&work_dir("C14_diag"));
            match chk.check(&src) {
                Ok(d) => {
                    for e in &d.errors {
                        let lc = e.span().start_line_col_one_index();
                        match e {
                            CompileError::MatchExpressionNonExhaustive { missing_patterns, .. } => println!("line {}: NON-EXHAUSTIVE missing: {missing_patterns}", lc.line),
                            other => println!("line {}: ERROR {other}", lc.line),
                        }
                    }
                    for w in &d.warnings {
                        if let Warning::MatchExpressionUnreachableArm { unreachable_arm, is_last_arm, is_catch_all_arm, .. } = &w.warning_content {
                            println!("line {}: UNREACHABLE ARM `{}` last={is_last_arm} catch_all={is_catch_all_arm}", unreachable_arm.start_line_col_one_index().line, unreachable_arm.as_str());
                        }
                    }
                    println!("{} errors, {} warnings", d.errors.len(), d.warnings.len());
                    Some(0)
                }
                Err(e) => {
                    println!("front end failed: {e}");
                    Some(1)
                }
            }
        }
        Some("c14-time") => {
            // time the front end on every `fn m<i>` of a batch file separately
            let src = std::fs::read_to_string(&args[1]).expect("read source");
            let mut chk = Checker::new(&work_dir("C14_diag"));
            chk.warm().expect("std");
            let first_fn = src.find("\nfn m").map(|i| i + 1).unwrap_or(src.len());
            let header = &src[..first_fn];
            let mut rest = &src[first_fn..];
            while let Some(end) = rest[1..].find("\nfn m").map(|i| i + 2) {
                let f = &rest[..end];
                rest = &rest[end..];
                let one = format!("{header}{f}\nfn main() -> u64 {{\n    0u64\n}}\n");
                let t = std::time::Instant::now();
                let r = chk.check(&one);
                let ms = t.elapsed().as_millis();
                println!("{ms:>7} ms  errors={:?}  {}", r.as_ref().map(|d| d.errors.len()).ok(), f.lines().next().unwrap_or(""));
                if ms > 1000 {
                    println!("{f}");
                }
            }
            Some(0)
        }
        Some("c14-show") => {
            let n = |k: usize, d: u64| args.get(k).and_then(|s| s.parse().ok()).unwrap_or(d);
            let (b, _) = batch_at(n(1, 1), n(2, 0), n(3, 0));
            println!("{}", diag_source(&b).0);
            Some(0)
        }
        Some("c14-selftest") => Some(selftest()),
        Some("c14-confirmtest") => {
            // the fresh-compiler confirmation must reproduce real findings: exercised with the
            // findings of the known classes of the unchanged tree
            let work = work_dir("C14_confirmtest");
            clean_dir(&work);
            let mut eng = Engines2::new(&work);
            let (mut yes, mut no, mut undecided) = (0, 0, 0);
            let (mut ryes, mut rno, mut rund) = (0, 0, 0);
            for index in 0..6u64 {
                let (b, _) = batch_at(99, 0, index);
                let (src, lines) = diag_source(&b);
                let Ok(diags) = eng.checker.check(&src) else { continue };
                let Ok(fd) = attribute(&diags, &lines, b.fns.len()) else { continue };
                for (i, m) in b.fns.iter().enumerate() {
                    if !fd[i].other_errors.is_empty() {
                        continue;
                    }
                    let ex = expected(m, &b.decls);
                    let mut scratch = ShardResult::default();
                    let kinds: BTreeSet<String> = judge_diagnostics(m, &b.decls, &ex, &fd[i], &mut scratch).into_iter().map(|f| f.kind).collect();
                    for k in kinds {
                        match confirm_diag(&mut eng, &b, i, &k) {
                            Some(true) => yes += 1,
                            Some(false) => {
                                no += 1;
                                println!("NOT reproduced: {k} :: {}", matrix_text(m));
                            }
                            None => undecided += 1,
                        }
                    }
                    // run-time: arms with an irrefutable alternative in an or-pattern
                    if fd[i].non_exhaustive.is_none() && ex.uncovered == 0 {
                        for (v, f) in ex.vals.iter().zip(&ex.first) {
                            let a = f.unwrap();
                            if has_or_with_irrefutable_alternative(&m.arms[a]) && !m.arms[a..].iter().skip(1).all(|_| false) {
                                for profile in Profile::BOTH {
                                    match confirm_run(&mut eng, &b, i, v, a, profile) {
                                        Some(true) => ryes += 1,
                                        Some(false) => rno += 1,
                                        None => rund += 1,
                                    }
                                }
                                break;
                            }
                        }
                    }
                }
            }
            println!("diagnostic findings: reproduced {yes}, not reproduced {no}, undecided {undecided}");
            println!("run-time probes on arms with the known or-pattern defect: differs {ryes}, agrees {rno}, undecided {rund}");
            Some(if yes > 10 && no == 0 && ryes > 0 { 0 } else { 1 })
        }
        _ => None,
    }
}

/// Synthetic observations: the oracle must flag every tampered diagnosis and must accept the
/// diagnosis derived from the brute force itself.
fn selftest() -> i32 {
    let mut failures = 0;
    let mut tried: BTreeMap<&'static str, (u32, u32)> = BTreeMap::new();
    let mut note = |name: &'static str, flagged: bool, failures: &mut i32, what: &str| {
        let e = tried.entry(name).or_insert((0, 0));
        e.0 += 1;
        if flagged {
            e.1 += 1;
        } else {
            *failures += 1;
            println!("selftest: {name} NOT flagged: {what}");
        }
    };
    let mut n = 0;
    for index in 0..40u64 {
        let (b, mut rng) = batch_at(777, 0, index);
        for m in &b.fns {
            let ex = expected(m, &b.decls);
            // the truthful diagnosis: an uncovered value printed as a witness, exact reachability
            let witness_of = |v: &MV| -> String {
                fn w(v: &MV, t: &MT, d: &Decls, pools: &Pools) -> String {
                    match (v, t) {
                        (MV::Bool(b), _) => b.to_string(),
                        (MV::Int(x), MT::Int(bits)) => {
                            let (lo, hi) = pools.class_of(*bits, *x);
                            if lo == hi {
                                lo.to_string()
                            } else {
                                format!("[{}...{}]", if lo == 0 { "MIN".to_string() } else { lo.to_string() }, if hi == int_max(*bits) { "MAX".to_string() } else { hi.to_string() })
                            }
                        }
                        (MV::Enum(k, None), MT::Enum(e)) => format!("{}::V{k}(_)", enum_name(*e)),
                        (MV::Enum(k, Some(p)), MT::Enum(e)) => format!("{}::V{k}({})", enum_name(*e), w(p, d.enums[*e][*k].as_ref().unwrap(), d, pools)),
                        (MV::Struct(vs), MT::Struct(s)) => format!("{} {{ {} }}", struct_name(*s), vs.iter().enumerate().map(|(k, v)| format!("f{k}: {}", w(v, &d.structs[*s][k], d, pools))).collect::<Vec<_>>().join(", ")),
                        (MV::Tuple(vs), MT::Tuple(ts)) => format!("({})", vs.iter().zip(ts).map(|(v, t)| w(v, t, d, pools)).collect::<Vec<_>>().join(", ")),
                        _ => unreachable!(),
                    }
                }
                w(v, &m.ty, &b.decls, &m.pools)
            };
            let uncovered: Vec<&MV> = ex.vals.iter().zip(&ex.first).filter(|(_, f)| f.is_none()).map(|(v, _)| v).collect();
            let covered: Vec<&MV> = ex.vals.iter().zip(&ex.first).filter(|(_, f)| f.is_some()).map(|(v, _)| v).collect();
            let truthful = FnDiag {
                non_exhaustive: uncovered.first().map(|v| format!("`{}`", witness_of(v))),
                flagged: (0..m.arms.len()).filter(|i| !ex.reachable[*i]).collect(),
                other_errors: vec![],
            };
            let mut r = ShardResult::default();
            let f = judge_diagnostics(m, &b.decls, &ex, &truthful, &mut r);
            if !f.is_empty() {
                failures += 1;
                println!("selftest: truthful diagnosis flagged: {} {} :: {}", f[0].kind, f[0].desc, matrix_text(m));
                continue;
            }
            n += 1;
            let flagged = |d: &FnDiag, kind: &str| {
                let mut r = ShardResult::default();
                judge_diagnostics(m, &b.decls, &ex, d, &mut r).iter().any(|f| f.kind.starts_with(kind))
            };
            if !uncovered.is_empty() {
                let mut d = truthful.clone();
                d.non_exhaustive = None;
                note("accepted_but_uncovered", flagged(&d, "accepted-although"), &mut failures, &matrix_text(m));
                if let Some(c) = covered.first() {
                    let mut d = truthful.clone();
                    d.non_exhaustive = Some(format!("`{}`, `{}`", witness_of(uncovered[0]), witness_of(c)));
                    note("witness_covered", flagged(&d, "witness-is-covered"), &mut failures, &matrix_text(m));
                }
                let mut d = truthful.clone();
                d.non_exhaustive = Some("`_`".into());
                if !covered.is_empty() {
                    note("witness_wildcard_covered", flagged(&d, "witness-is-covered"), &mut failures, &matrix_text(m));
                }
                let mut d = truthful.clone();
                d.non_exhaustive = Some("`Nope::V0(_)`, `(true, true, true, true, true)`".into());
                note("witness_ill_typed", flagged(&d, "witness-is-not-a-pattern-of"), &mut failures, &matrix_text(m));
            } else {
                let mut d = truthful.clone();
                d.non_exhaustive = Some("`_`".into());
                note("rejected_but_exhaustive", flagged(&d, "rejected-although"), &mut failures, &matrix_text(m));
            }
            if let Some(i) = (0..m.arms.len()).find(|i| ex.reachable[*i]) {
                let mut d = truthful.clone();
                d.flagged.insert(i);
                note("reachable_flagged", flagged(&d, "reachable-arm-flagged"), &mut failures, &matrix_text(m));
            }
            if let Some(i) = (0..m.arms.len()).find(|i| !ex.reachable[*i]) {
                let mut d = truthful.clone();
                d.flagged.remove(&i);
                note("unreachable_not_flagged", flagged(&d, "unreachable-arm-not-flagged"), &mut failures, &matrix_text(m));
            }
            // off-by-one range witness: extend an uncovered gap over the neighbouring literal
            for v in &uncovered {
                if let (MV::Int(x), MT::Int(bits)) = (v, &m.ty) {
                    let (lo, hi) = m.pools.class_of(*bits, *x);
                    if hi < int_max(*bits) && m.pools.0[bits].contains(&(hi + 1)) && first_match(&m.arms, &MV::Int(hi + 1)).is_some() {
                        let mut d = truthful.clone();
                        d.non_exhaustive = Some(format!("`[{lo}...{}]`", hi + 1));
                        note("range_witness_off_by_one", flagged(&d, "witness-is-covered"), &mut failures, &matrix_text(m));
                    }
                }
            }
            let _ = &mut rng;
        }
    }
    // witness grammar round trips
    for (text, ok) in [
        ("_", true),
        ("[MIN...3]", true),
        ("[5...MAX]", true),
        ("En0::V1((true, [2...7]))", true),
        ("St0 { f0: true, f1: _ }", true),
        ("St0 { f0: true, ... }", true),
        ("(true, false) | (false, _)", true),
        ("(true, ", false),
        ("[3..4]", false),
    ] {
        if parse_witness(text).is_ok() != ok {
            failures += 1;
            println!("selftest: witness grammar: `{text}` parsed = {}", !ok);
        }
    }
    for (k, (t, hit)) in &tried {
        println!("selftest: {k}: flagged {hit} of {t}");
    }
    println!("selftest: {n} matrices, {failures} failures");
    if failures == 0 && n > 100 && tried.len() >= 8 {
        0
    } else {
        1
    }
}
