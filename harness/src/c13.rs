//! C13: configurables patched at the offsets the JSON ABI reports are observed by the program.
//!
//! Monitor: generated scripts with 1..10 configurables of fixed-length ABI types; `main` returns
//! a tuple of observations of them (the value itself, the value through a helper function, a
//! comparison with the compiled-in default, a projection, an enum tag) and logs some. The
//! program is compiled with the real forc-pkg flow (which fixes up the ABI offsets and the
//! prelude word), in debug and in release. Like an SDK the monitor takes offsets and types ONLY
//! from the emitted ABI (`configurables[i].offset`, `concreteTypeId` resolved through
//! `concreteTypes`/`metadataTypes`), writes its own canonical encoding (encoding v1) of a
//! replacement value at the offset and runs the patched bytecode in the FuelVM.
//! Oracle: every patched configurable is observed with its new value in all components that
//! depend on it, every other component keeps its compiled-in value. Structural checks: bytes at
//! the offset are the encoded default, the prelude word (bytes 16..24) is the smallest offset,
//! regions are inside the bytecode and disjoint, every used configurable is listed with the
//! declared type.
use crate::common::*;
use crate::engine::*;
use crate::swrun::{bucket, first_error_text};
use crate::{Plan, Prop};
use fuel_abi_types::abi::program as fabi;
use rand::{rngs::StdRng, Rng};
use serde_json::{json, Value};
use std::collections::{BTreeMap, BTreeSet};
use std::panic::AssertUnwindSafe;

pub static META: PropertyMeta = PropertyMeta {
    id: "C13",
    level: "exploration",
    rule: "generated scripts with 1..10 configurables (bool, u8..u256, b256, str[N], arrays, tuples, structs, enums, nested <= 3; names chosen so that name order differs from declaration order; usage classes main / helper / several functions / unused / uncalled function / `if false`) x {debug, release} x patch patterns {none, each listed configurable alone, adjacent pairs in offset order, all}; an evaluation = one program; non-trivial = compiled in both profiles, >= 2 configurables listed in the ABI and at least one single-configurable patch changed an observed component; distinct = hash of the source text",
    assumptions: &[
        "fuel-vm 0.66 is the trusted execution substrate",
        "encoding v1 (the default of this tree): a configurable's slot holds the ABI encoding of its value, padded to the largest encoding of its type; an SDK writes the encoding of the new value at the reported offset",
        "offsets, types and sizes are taken only from the ABI object forc-pkg emits (the content of the JSON ABI file)",
        "programs are built by the amortised engine (one compiler instance for many packages); a failed check is re-checked on a plain forc build of the same package (fresh compiler instance, what forc does) and reported only if it fails there too",
        "in this tree every declared configurable is decoded at start-up and therefore listed, read or not: an unread configurable is patched as well and must change nothing",
    ],
    floor_evaluations: 30,
    floor_nontrivial: 10,
    required_counters: &[
        "programs_checked.debug",
        "programs_checked.release",
        "patch_runs.none",
        "patch_runs.single",
        "patch_runs.pair",
        "patch_runs.all",
        "components_compared",
        "components_changed_by_patch",
        "structural.default_bytes",
        "structural.prelude_word",
        "structural.in_bounds",
        "structural.disjoint",
        "structural.used_is_listed",
        "structural.abi_type_matches",
        "unread_configurable_patched",
        "cfg_ctor.struct",
        "cfg_ctor.enum",
        "cfg_ctor.array",
        "cfg_ctor.tuple",
        "cfg_ctor.str",
        "cfg_ctor.u256",
        "cfg_ctor.b256",
        "cfg_ctor.u8",
        "cfg_ctor.bool",
    ],
};

pub static PROP: Prop = Prop {
    meta: &META,
    plan: |t| Plan { nshards: 16, budget_s: t.pick(50.0, 1000.0), mem_gib: 6 },
    shard,
    replay,
    extra: crate::no_extra,
    subcommand,
};

// ------------------------------------------------------------------------------------------
// Types, values, codec (own implementation of encoding v1)

#[derive(Clone, Debug, PartialEq, Eq)]
pub enum T {
    Unit,
    Bool,
    /// 8, 16, 32, 64, 256
    UInt(u32),
    B256,
    Str(usize),
    Array(Box<T>, usize),
    Tuple(Vec<T>),
    Struct(String, Vec<(String, T)>),
    /// a unit variant has payload `T::Unit`
    Enum(String, Vec<(String, T)>),
}

#[derive(Clone, Debug, PartialEq, Eq)]
pub enum V {
    Unit,
    Bool(bool),
    /// big endian, exactly the width of the type
    Int(Vec<u8>),
    Str(Vec<u8>),
    /// array elements, tuple elements, struct fields
    Seq(Vec<V>),
    Enum(usize, Box<V>),
}

impl T {
    pub fn name(&self) -> String {
        match self {
            T::Unit => "()".into(),
            T::Bool => "bool".into(),
            T::UInt(b) => format!("u{b}"),
            T::B256 => "b256".into(),
            T::Str(n) => format!("str[{n}]"),
            T::Array(t, n) => format!("[{}; {n}]", t.name()),
            T::Tuple(ts) => format!("({})", ts.iter().map(|t| t.name()).collect::<Vec<_>>().join(", ")),
            T::Struct(n, _) | T::Enum(n, _) => n.clone(),
        }
    }
    pub fn ctor(&self) -> &'static str {
        match self {
            T::Unit => "unit",
            T::Bool => "bool",
            T::UInt(8) => "u8",
            T::UInt(16) => "u16",
            T::UInt(32) => "u32",
            T::UInt(64) => "u64",
            T::UInt(_) => "u256",
            T::B256 => "b256",
            T::Str(_) => "str",
            T::Array(..) => "array",
            T::Tuple(_) => "tuple",
            T::Struct(..) => "struct",
            T::Enum(..) => "enum",
        }
    }
    /// size of the largest encoding of a value of this type (= size of the configurable's slot)
    pub fn max_size(&self) -> usize {
        match self {
            T::Unit => 0,
            T::Bool => 1,
            T::UInt(b) => (*b / 8) as usize,
            T::B256 => 32,
            T::Str(n) => *n,
            T::Array(t, n) => t.max_size() * n,
            T::Tuple(ts) => ts.iter().map(|t| t.max_size()).sum(),
            T::Struct(_, fs) => fs.iter().map(|(_, t)| t.max_size()).sum(),
            T::Enum(_, vs) => 8 + vs.iter().map(|(_, t)| t.max_size()).max().unwrap_or(0),
        }
    }
    fn nested_ctors(&self, out: &mut Vec<&'static str>) {
        out.push(self.ctor());
        match self {
            T::Array(t, _) => t.nested_ctors(out),
            T::Tuple(ts) => ts.iter().for_each(|t| t.nested_ctors(out)),
            T::Struct(_, fs) | T::Enum(_, fs) => fs.iter().for_each(|(_, t)| t.nested_ctors(out)),
            _ => {}
        }
    }
    fn depth(&self) -> usize {
        match self {
            T::Array(t, _) => 1 + t.depth(),
            T::Tuple(ts) => 1 + ts.iter().map(|t| t.depth()).max().unwrap_or(0),
            T::Struct(_, fs) | T::Enum(_, fs) => 1 + fs.iter().map(|(_, t)| t.depth()).max().unwrap_or(0),
            _ => 0,
        }
    }
}

pub fn encode(t: &T, v: &V, out: &mut Vec<u8>) {
    match (t, v) {
        (T::Unit, V::Unit) => {}
        (T::Bool, V::Bool(b)) => out.push(*b as u8),
        (T::UInt(bits), V::Int(b)) => {
            assert_eq!(b.len(), (*bits / 8) as usize);
            out.extend(b);
        }
        (T::B256, V::Int(b)) => {
            assert_eq!(b.len(), 32);
            out.extend(b);
        }
        (T::Str(n), V::Str(s)) => {
            assert_eq!(s.len(), *n);
            out.extend(s);
        }
        (T::Array(et, n), V::Seq(vs)) => {
            assert_eq!(vs.len(), *n);
            for v in vs {
                encode(et, v, out);
            }
        }
        (T::Tuple(ts), V::Seq(vs)) => {
            assert_eq!(vs.len(), ts.len());
            for (t, v) in ts.iter().zip(vs) {
                encode(t, v, out);
            }
        }
        (T::Struct(_, fs), V::Seq(vs)) => {
            assert_eq!(vs.len(), fs.len());
            for ((_, t), v) in fs.iter().zip(vs) {
                encode(t, v, out);
            }
        }
        (T::Enum(_, vars), V::Enum(k, p)) => {
            out.extend((*k as u64).to_be_bytes());
            encode(&vars[*k].1, p, out);
        }
        _ => panic!("c13: encode type/value mismatch {t:?} {v:?}"),
    }
}

pub fn enc(t: &T, v: &V) -> Vec<u8> {
    let mut o = vec![];
    encode(t, v, &mut o);
    o
}

/// Type-directed decoder of encoding v1; None = the bytes are not an encoding of a value of `t`.
pub fn decode(t: &T, d: &[u8], pos: &mut usize) -> Option<V> {
    fn take<'a>(d: &'a [u8], pos: &mut usize, n: usize) -> Option<&'a [u8]> {
        let s = d.get(*pos..pos.checked_add(n)?)?;
        *pos += n;
        Some(s)
    }
    Some(match t {
        T::Unit => V::Unit,
        T::Bool => match take(d, pos, 1)?[0] {
            0 => V::Bool(false),
            1 => V::Bool(true),
            _ => return None,
        },
        T::UInt(b) => V::Int(take(d, pos, (*b / 8) as usize)?.to_vec()),
        T::B256 => V::Int(take(d, pos, 32)?.to_vec()),
        T::Str(n) => V::Str(take(d, pos, *n)?.to_vec()),
        T::Array(et, n) => {
            let mut vs = vec![];
            for _ in 0..*n {
                vs.push(decode(et, d, pos)?);
            }
            V::Seq(vs)
        }
        T::Tuple(ts) => V::Seq(ts.iter().map(|t| decode(t, d, pos)).collect::<Option<Vec<_>>>()?),
        T::Struct(_, fs) => V::Seq(fs.iter().map(|(_, t)| decode(t, d, pos)).collect::<Option<Vec<_>>>()?),
        T::Enum(_, vars) => {
            let k = u64::from_be_bytes(take(d, pos, 8)?.try_into().ok()?);
            let (_, pt) = vars.get(usize::try_from(k).ok()?)?;
            V::Enum(k as usize, Box::new(decode(pt, d, pos)?))
        }
    })
}

/// Sway literal / constant expression of a value.
pub fn lit(t: &T, v: &V) -> String {
    match (t, v) {
        (T::Unit, _) => "()".into(),
        (T::Bool, V::Bool(b)) => b.to_string(),
        (T::UInt(256), V::Int(b)) => format!("0x{}u256", hex::encode(b)),
        (T::UInt(bits), V::Int(b)) => {
            let mut x = 0u64;
            for y in b {
                x = (x << 8) | *y as u64;
            }
            format!("{x}u{bits}")
        }
        (T::B256, V::Int(b)) => format!("0x{}", hex::encode(b)),
        (T::Str(_), V::Str(s)) => format!("__to_str_array(\"{}\")", String::from_utf8_lossy(s)),
        (T::Array(et, _), V::Seq(vs)) => format!("[{}]", vs.iter().map(|v| lit(et, v)).collect::<Vec<_>>().join(", ")),
        (T::Tuple(ts), V::Seq(vs)) => format!("({})", ts.iter().zip(vs).map(|(t, v)| lit(t, v)).collect::<Vec<_>>().join(", ")),
        (T::Struct(n, fs), V::Seq(vs)) => format!("{n} {{ {} }}", fs.iter().zip(vs).map(|((f, t), v)| format!("{f}: {}", lit(t, v))).collect::<Vec<_>>().join(", ")),
        (T::Enum(n, vars), V::Enum(k, p)) => {
            let (vn, pt) = &vars[*k];
            if *pt == T::Unit {
                format!("{n}::{vn}")
            } else {
                format!("{n}::{vn}({})", lit(pt, p))
            }
        }
        _ => panic!("c13: lit type/value mismatch"),
    }
}

fn short_val(t: &T, v: &V) -> String {
    let s = lit(t, v);
    if s.len() > 90 {
        format!("{}…", s.chars().take(90).collect::<String>())
    } else {
        s
    }
}

// ------------------------------------------------------------------------------------------
// Generator

#[derive(Clone, Copy, Debug, PartialEq, Eq)]
pub enum Usage {
    /// read in `main`
    Main,
    /// read only in a helper function that `main` calls
    Helper,
    /// read in `main` and in helper functions
    Multi,
    /// never mentioned
    Unused,
    /// mentioned only in a function nobody calls
    DeadFn,
    /// mentioned only under `if false`
    DeadBranch,
}

impl Usage {
    fn observed(self) -> bool {
        matches!(self, Usage::Main | Usage::Helper | Usage::Multi)
    }
    fn name(self) -> &'static str {
        match self {
            Usage::Main => "main",
            Usage::Helper => "helper",
            Usage::Multi => "several_functions",
            Usage::Unused => "unused",
            Usage::DeadFn => "uncalled_function",
            Usage::DeadBranch => "if_false",
        }
    }
}

#[derive(Clone, Debug)]
pub struct Cfg {
    pub name: String,
    pub ty: T,
    pub default: V,
    /// replacement value used by the patch runs
    pub new: V,
    pub usage: Usage,
    /// default written as `[v; N]`
    pub repeat_default: bool,
}

#[derive(Clone, Debug)]
pub enum Comp {
    Direct(usize),
    Helper(usize),
    /// `K == <default literal>`
    EqDefault(usize),
    /// struct field / tuple element / array element with a constant index
    Proj(usize, usize),
    /// index of the enum variant, by `match`
    Tag(usize),
}

impl Comp {
    fn cfg(&self) -> usize {
        match self {
            Comp::Direct(k) | Comp::Helper(k) | Comp::EqDefault(k) | Comp::Proj(k, _) | Comp::Tag(k) => *k,
        }
    }
    fn kind(&self) -> &'static str {
        match self {
            Comp::Direct(_) => "direct",
            Comp::Helper(_) => "via_helper",
            Comp::EqDefault(_) => "eq_default",
            Comp::Proj(..) => "projection",
            Comp::Tag(_) => "enum_tag",
        }
    }
}

#[derive(Clone, Debug)]
pub struct Case {
    pub decls: Vec<T>,
    pub cfgs: Vec<Cfg>,
    pub comps: Vec<Comp>,
    /// configurables logged in main (in this order), before the return
    pub logged: Vec<usize>,
    pub src: String,
}

struct Gen<'a> {
    rng: &'a mut StdRng,
    decls: Vec<T>,
}

const STR_CHARS: &[u8] = b"abcdefghijklmnopqrstuvwxyzABCDEFGHIJKLMNOPQRSTUVWXYZ0123456789 _-+";

impl Gen<'_> {
    fn leaf(&mut self) -> T {
        match self.rng.gen_range(0..12) {
            0 | 1 => T::Bool,
            2 | 3 => T::UInt(8),
            4 => T::UInt(16),
            5 => T::UInt(32),
            6 | 7 => T::UInt(64),
            8 => T::UInt(256),
            9 => T::B256,
            _ => {
                let n = if self.rng.gen_bool(0.1) { self.rng.gen_range(13..40) } else { self.rng.gen_range(1..13) };
                T::Str(n)
            }
        }
    }
    fn ty(&mut self, depth: usize) -> T {
        if depth == 0 || self.rng.gen_bool(0.45) {
            return self.leaf();
        }
        match self.rng.gen_range(0..4) {
            0 => {
                let n = self.rng.gen_range(1..=5);
                T::Array(Box::new(self.ty(depth - 1)), n)
            }
            1 => {
                let n = self.rng.gen_range(2..=4);
                T::Tuple((0..n).map(|_| self.ty(depth - 1)).collect())
            }
            2 => self.nominal(depth, true),
            _ => self.nominal(depth, false),
        }
    }
    /// a struct or an enum: an existing declaration of a fitting depth or a new one
    fn nominal(&mut self, depth: usize, is_struct: bool) -> T {
        let existing: Vec<T> = self.decls.iter().filter(|d| matches!(d, T::Struct(..)) == is_struct && d.depth() <= depth).cloned().collect();
        if !existing.is_empty() && self.rng.gen_bool(0.4) {
            return existing[self.rng.gen_range(0..existing.len())].clone();
        }
        let n = self.rng.gen_range(1..=4);
        let idx = self.decls.len();
        // reserve the name first (inner declarations get later indices but are printed first)
        let t = if is_struct {
            let fields = (0..n).map(|i| (format!("f{i}"), self.ty(depth - 1))).collect();
            T::Struct(format!("S{idx}x{}", self.rng.gen_range(0..1000)), fields)
        } else {
            let vars = (0..n).map(|i| (format!("V{i}"), if self.rng.gen_bool(0.35) { T::Unit } else { self.ty(depth - 1) })).collect();
            T::Enum(format!("E{idx}x{}", self.rng.gen_range(0..1000)), vars)
        };
        self.decls.push(t.clone());
        t
    }
    fn val(&mut self, t: &T, flavour: u8) -> V {
        match t {
            T::Unit => V::Unit,
            T::Bool => V::Bool(match flavour {
                1 => false,
                2 => true,
                _ => self.rng.gen(),
            }),
            T::UInt(_) | T::B256 => {
                let n = t.max_size();
                V::Int(match flavour {
                    1 => vec![0; n],
                    2 => vec![0xff; n],
                    3 => {
                        // small value
                        let mut b = vec![0; n];
                        b[n - 1] = self.rng.gen_range(0..4);
                        b
                    }
                    _ => (0..n).map(|_| self.rng.gen::<u8>()).collect(),
                })
            }
            T::Str(n) => V::Str(match flavour {
                1 => vec![b' '; *n],
                2 => vec![b'z'; *n],
                _ => (0..*n).map(|_| STR_CHARS[self.rng.gen_range(0..STR_CHARS.len())]).collect(),
            }),
            T::Array(et, n) => V::Seq((0..*n).map(|_| self.val(et, flavour)).collect()),
            T::Tuple(ts) => V::Seq(ts.iter().map(|t| self.val(t, flavour)).collect()),
            T::Struct(_, fs) => V::Seq(fs.iter().map(|(_, t)| self.val(t, flavour)).collect()),
            T::Enum(_, vars) => {
                let k = match flavour {
                    1 => 0,
                    2 => vars.len() - 1,
                    _ => self.rng.gen_range(0..vars.len()),
                };
                V::Enum(k, Box::new(self.val(&vars[k].1, flavour)))
            }
        }
    }
    fn flavour(&mut self) -> u8 {
        match self.rng.gen_range(0..10) {
            0 => 1,
            1 | 2 => 2,
            3 => 3,
            _ => 0,
        }
    }
}

const PREFIXES: &[&str] = &["K", "ZED", "ALPHA", "MID", "Q", "BETA", "OMEGA", "A", "Z_Z", "CONF", "B2", "YY"];

pub fn gen_case(rng: &mut StdRng) -> Case {
    let mut g = Gen { rng, decls: vec![] };
    let n = if g.rng.gen_bool(0.15) { 1 } else { g.rng.gen_range(2..=10) };
    let mut cfgs: Vec<Cfg> = vec![];
    for i in 0..n {
        let depth = g.rng.gen_range(0..=3);
        let mut repeat_default = false;
        let ty = if g.rng.gen_bool(0.04) && !cfgs.iter().any(|c: &Cfg| c.repeat_default) {
            // a big slot: pushes the later offsets far away and exercises long copies
            repeat_default = true;
            let et = match g.rng.gen_range(0..3) {
                0 => T::UInt(64),
                1 => T::UInt(8),
                _ => T::B256,
            };
            let max = 1800 / et.max_size();
            T::Array(Box::new(et), g.rng.gen_range(20..=max.min(400)))
        } else if i > 0 && g.rng.gen_bool(0.12) {
            // the same type as an earlier configurable (shared decode function)
            cfgs[g.rng.gen_range(0..i)].ty.clone()
        } else {
            g.ty(depth)
        };
        let f = g.flavour();
        let default = if repeat_default {
            let T::Array(et, n) = &ty else { unreachable!() };
            let e = g.val(et, f);
            V::Seq(vec![e; *n])
        } else {
            g.val(&ty, f)
        };
        let mut new = default.clone();
        for _ in 0..6 {
            let f = g.flavour();
            new = g.val(&ty, f);
            if new != default {
                break;
            }
        }
        let usage = match g.rng.gen_range(0..20) {
            0..=8 => Usage::Main,
            9..=11 => Usage::Helper,
            12..=14 => Usage::Multi,
            15 | 16 => Usage::Unused,
            17 | 18 => Usage::DeadFn,
            _ => Usage::DeadBranch,
        };
        let name = format!("{}_{i}", PREFIXES[g.rng.gen_range(0..PREFIXES.len())]);
        cfgs.push(Cfg { name, ty, default, new, usage, repeat_default });
    }
    if !cfgs.iter().any(|c| c.usage.observed()) {
        let k = g.rng.gen_range(0..cfgs.len());
        cfgs[k].usage = Usage::Main;
    }
    // observation components
    let mut comps = vec![];
    for (k, c) in cfgs.iter().enumerate() {
        match c.usage {
            Usage::Main => comps.push(Comp::Direct(k)),
            Usage::Helper => comps.push(Comp::Helper(k)),
            Usage::Multi => {
                comps.push(Comp::Direct(k));
                comps.push(Comp::Helper(k));
            }
            _ => continue,
        }
        let direct_ok = c.usage != Usage::Helper;
        if direct_ok && comps.len() < 14 && g.rng.gen_bool(0.35) {
            match &c.ty {
                T::Bool | T::UInt(_) | T::B256 => comps.push(Comp::EqDefault(k)),
                T::Struct(_, fs) => comps.push(Comp::Proj(k, g.rng.gen_range(0..fs.len()))),
                T::Tuple(ts) => comps.push(Comp::Proj(k, g.rng.gen_range(0..ts.len()))),
                T::Array(_, n) => comps.push(Comp::Proj(k, g.rng.gen_range(0..*n))),
                T::Enum(..) => comps.push(Comp::Tag(k)),
                _ => {}
            }
        }
    }
    // shuffle the components so that return order differs from declaration order
    for i in (1..comps.len()).rev() {
        let j = g.rng.gen_range(0..=i);
        comps.swap(i, j);
    }
    let mut logged = vec![];
    for (k, c) in cfgs.iter().enumerate() {
        if matches!(c.usage, Usage::Main | Usage::Multi) && logged.len() < 3 && c.ty.max_size() < 600 && g.rng.gen_bool(0.3) {
            logged.push(k);
        }
    }
    let decls = g.decls.clone();
    let mut case = Case { decls, cfgs, comps, logged, src: String::new() };
    case.src = print_case(&case);
    case
}

fn comp_type(case: &Case, c: &Comp) -> T {
    let t = &case.cfgs[c.cfg()].ty;
    match c {
        Comp::Direct(_) | Comp::Helper(_) => t.clone(),
        Comp::EqDefault(_) => T::Bool,
        Comp::Tag(_) => T::UInt(64),
        Comp::Proj(_, i) => match t {
            T::Struct(_, fs) => fs[*i].1.clone(),
            T::Tuple(ts) => ts[*i].clone(),
            T::Array(et, _) => (**et).clone(),
            _ => unreachable!(),
        },
    }
}

/// Value of a component when configurable k holds `vals[k]`.
fn comp_val(case: &Case, c: &Comp, vals: &[&V]) -> V {
    let k = c.cfg();
    let v = vals[k];
    match c {
        Comp::Direct(_) | Comp::Helper(_) => v.clone(),
        Comp::EqDefault(_) => V::Bool(*v == case.cfgs[k].default),
        Comp::Tag(_) => match v {
            V::Enum(i, _) => V::Int((*i as u64).to_be_bytes().to_vec()),
            _ => unreachable!(),
        },
        Comp::Proj(_, i) => match v {
            V::Seq(vs) => vs[*i].clone(),
            _ => unreachable!(),
        },
    }
}

fn comp_expr(case: &Case, c: &Comp) -> String {
    let cfg = &case.cfgs[c.cfg()];
    let n = &cfg.name;
    match c {
        Comp::Direct(_) => n.clone(),
        Comp::Helper(_) => format!("get_{}()", n.to_lowercase()),
        Comp::EqDefault(_) => format!("({n} == {})", lit(&cfg.ty, &cfg.default)),
        Comp::Proj(_, i) => match &cfg.ty {
            T::Struct(_, fs) => format!("{n}.{}", fs[*i].0),
            T::Tuple(_) => format!("{n}.{i}"),
            T::Array(..) => format!("{n}[{i}]"),
            _ => unreachable!(),
        },
        Comp::Tag(_) => {
            let T::Enum(en, vars) = &cfg.ty else { unreachable!() };
            let arms: Vec<String> = vars.iter().enumerate().map(|(i, (vn, pt))| if *pt == T::Unit { format!("{en}::{vn} => {i}u64") } else { format!("{en}::{vn}(_) => {i}u64") }).collect();
            format!("match {n} {{ {}, }}", arms.join(", "))
        }
    }
}

pub fn print_case(case: &Case) -> String {
    let mut s = String::from("script;\n\n");
    // inner declarations were pushed after the outer ones reserved their index: order is irrelevant in Sway
    for d in &case.decls {
        match d {
            T::Struct(n, fs) => {
                s.push_str(&format!("struct {n} {{\n"));
                for (f, t) in fs {
                    s.push_str(&format!("    {f}: {},\n", t.name()));
                }
                s.push_str("}\n\n");
            }
            T::Enum(n, vars) => {
                s.push_str(&format!("enum {n} {{\n"));
                for (v, t) in vars {
                    s.push_str(&format!("    {v}: {},\n", t.name()));
                }
                s.push_str("}\n\n");
            }
            _ => {}
        }
    }
    s.push_str("configurable {\n");
    for c in &case.cfgs {
        let init = if c.repeat_default {
            let (T::Array(et, n), V::Seq(vs)) = (&c.ty, &c.default) else { unreachable!() };
            format!("[{}; {n}]", lit(et, &vs[0]))
        } else {
            lit(&c.ty, &c.default)
        };
        s.push_str(&format!("    {}: {} = {},\n", c.name, c.ty.name(), init));
    }
    s.push_str("}\n\n");
    for c in &case.cfgs {
        match c.usage {
            Usage::Helper | Usage::Multi => s.push_str(&format!("fn get_{}() -> {} {{\n    {}\n}}\n\n", c.name.to_lowercase(), c.ty.name(), c.name)),
            Usage::DeadFn => s.push_str(&format!("#[allow(dead_code)]\nfn nobody_calls_{}() -> {} {{\n    {}\n}}\n\n", c.name.to_lowercase(), c.ty.name(), c.name)),
            _ => {}
        }
    }
    let tys: Vec<String> = case.comps.iter().map(|c| comp_type(case, c).name()).collect();
    let ret = if tys.len() == 1 { tys[0].clone() } else { format!("({})", tys.join(", ")) };
    s.push_str(&format!("fn main() -> {ret} {{\n"));
    for c in &case.cfgs {
        if c.usage == Usage::DeadBranch {
            s.push_str(&format!("    if false {{\n        log({});\n    }}\n", c.name));
        }
    }
    for k in &case.logged {
        s.push_str(&format!("    log({});\n", case.cfgs[*k].name));
    }
    for (i, c) in case.comps.iter().enumerate() {
        s.push_str(&format!("    let c{i}: {} = {};\n", tys[i], comp_expr(case, c)));
    }
    let names: Vec<String> = (0..case.comps.len()).map(|i| format!("c{i}")).collect();
    if names.len() == 1 {
        s.push_str("    c0\n");
    } else {
        s.push_str(&format!("    ({})\n", names.join(", ")));
    }
    s.push_str("}\n");
    s
}

// ------------------------------------------------------------------------------------------
// ABI reader (what an SDK does with the JSON)

fn last_segment(s: &str) -> String {
    s.rsplit("::").next().unwrap_or(s).trim().to_string()
}

fn prim(tf: &str) -> Result<T, String> {
    Ok(match tf {
        "()" => T::Unit,
        "bool" => T::Bool,
        "u8" => T::UInt(8),
        "u16" => T::UInt(16),
        "u32" => T::UInt(32),
        "u64" => T::UInt(64),
        "u256" => T::UInt(256),
        "b256" => T::B256,
        _ => {
            if let Some(n) = tf.strip_prefix("str[").and_then(|r| r.strip_suffix(']')).and_then(|n| n.parse::<usize>().ok()) {
                T::Str(n)
            } else {
                return Err(format!("type `{tf}` without metadata is not a known primitive"));
            }
        }
    })
}

pub fn resolve_concrete(abi: &fabi::ProgramABI, id: &str, fuel: usize) -> Result<T, String> {
    if fuel == 0 {
        return Err("type nesting too deep".into());
    }
    let c = abi.concrete_types.iter().find(|c| c.concrete_type_id.0 == id).ok_or_else(|| format!("concreteTypeId {id} is not declared in concreteTypes"))?;
    if let Some(a) = &c.alias_of {
        return resolve_concrete(abi, &a.0, fuel - 1);
    }
    if c.type_arguments.as_ref().map(|a| !a.is_empty()).unwrap_or(false) {
        return Err("generic type (not generated by this monitor)".into());
    }
    match &c.metadata_type_id {
        None => prim(&c.type_field),
        Some(m) => resolve_meta(abi, m.0, fuel - 1),
    }
}

fn resolve_meta(abi: &fabi::ProgramABI, mid: usize, fuel: usize) -> Result<T, String> {
    if fuel == 0 {
        return Err("type nesting too deep".into());
    }
    let m = abi.metadata_types.iter().find(|m| m.metadata_type_id.0 == mid).ok_or_else(|| format!("metadataTypeId {mid} is not declared"))?;
    if m.type_parameters.as_ref().map(|a| !a.is_empty()).unwrap_or(false) {
        return Err("generic type (not generated by this monitor)".into());
    }
    let mut comps = vec![];
    for a in m.components.clone().unwrap_or_default() {
        if a.type_arguments.as_ref().map(|x| !x.is_empty()).unwrap_or(false) {
            return Err("generic type (not generated by this monitor)".into());
        }
        let t = match &a.type_id {
            fabi::TypeId::Concrete(c) => resolve_concrete(abi, &c.0, fuel - 1)?,
            fabi::TypeId::Metadata(m) => resolve_meta(abi, m.0, fuel - 1)?,
        };
        comps.push((a.name.clone(), t));
    }
    let tf = m.type_field.trim();
    if comps.is_empty() {
        // primitives that only occur nested are declared as metadata types without components
        if let Ok(t) = prim(tf) {
            return Ok(t);
        }
    }
    if let Some(n) = tf.strip_prefix("struct ") {
        Ok(T::Struct(last_segment(n), comps))
    } else if let Some(n) = tf.strip_prefix("enum ") {
        Ok(T::Enum(last_segment(n), comps))
    } else if tf.starts_with('(') {
        if comps.is_empty() {
            return Ok(T::Unit);
        }
        Ok(T::Tuple(comps.into_iter().map(|c| c.1).collect()))
    } else if tf.starts_with('[') {
        let n = tf.trim_end_matches(']').rsplit(';').next().and_then(|n| n.trim().parse::<usize>().ok()).ok_or_else(|| format!("array type `{tf}` without a length"))?;
        let et = comps.into_iter().next().ok_or_else(|| format!("array type `{tf}` without an element component"))?.1;
        Ok(T::Array(Box::new(et), n))
    } else {
        Err(format!("metadata type `{tf}` not understood"))
    }
}

// ------------------------------------------------------------------------------------------
// The oracle

struct Listed {
    /// index into case.cfgs
    k: usize,
    offset: usize,
}

fn sig(kind: &str, case: &Case) -> String {
    format!("{kind}:{:016x}", hash64(case.src.as_bytes()))
}

/// All checks of one (program, profile). `replay` is attached to violations.
pub fn check_build(case: &Case, bytecode: &[u8], abi: &fabi::ProgramABI, profile: Profile, res: &mut ShardResult, replay: &Value) -> bool {
    let pn = profile.name();
    let mut changed_any = false;
    let fail = |res: &mut ShardResult, kind: &str, desc: String| {
        res.violation(sig(kind, case), format!("[{pn}] {desc}"), replay.clone());
    };
    if abi.encoding_version.0 != "1" {
        res.inconclusive(format!("ABI encoding version is {}, the monitor implements version 1", abi.encoding_version.0));
        return false;
    }
    let entries = abi.configurables.clone().unwrap_or_default();
    // --- which configurables are listed
    let mut listed: Vec<Listed> = vec![];
    let mut seen = BTreeSet::new();
    for e in &entries {
        let Some(k) = case.cfgs.iter().position(|c| c.name == e.name) else {
            fail(res, "abi-lists-undeclared-configurable", format!("the ABI lists configurable `{}` which the program does not declare", e.name));
            continue;
        };
        if !seen.insert(k) {
            fail(res, "abi-lists-configurable-twice", format!("the ABI lists configurable `{}` twice", e.name));
            continue;
        }
        if e.indirect {
            res.inconclusive(format!("configurable `{}` is marked indirect; the monitor only patches direct configurables", e.name));
            continue;
        }
        // type, as an SDK would resolve it
        match resolve_concrete(abi, &e.concrete_type_id.0, 12) {
            Ok(t) => {
                res.count("structural.abi_type_matches");
                if t != case.cfgs[k].ty {
                    fail(res, "abi-type-differs-from-declared-type", format!("configurable `{}` is declared as `{}` but its concreteTypeId resolves to `{}` ({t:?})", e.name, case.cfgs[k].ty.name(), t.name()));
                    continue;
                }
            }
            Err(why) => {
                res.inconclusive(format!("cannot resolve the ABI type of configurable `{}`: {why}", e.name));
                continue;
            }
        }
        listed.push(Listed { k, offset: e.offset as usize });
    }
    for (k, c) in case.cfgs.iter().enumerate() {
        let is_listed = seen.contains(&k);
        if c.usage.observed() {
            res.count("structural.used_is_listed");
            if !is_listed {
                fail(res, "used-configurable-not-listed", format!("configurable `{}` is read by the program ({}) but the ABI does not list it", c.name, c.usage.name()));
            }
        } else if is_listed {
            res.count("unused_configurable_listed");
            res.count(&format!("unused_listed.{}.{pn}", c.usage.name()));
        } else {
            res.count("unused_configurable_filtered");
            res.count(&format!("unused_filtered.{}.{pn}", c.usage.name()));
        }
    }
    if listed.is_empty() {
        return false;
    }
    // --- structural checks on offsets
    let mut patchable = true;
    for l in &listed {
        let c = &case.cfgs[l.k];
        res.count("structural.in_bounds");
        let size = c.ty.max_size();
        if l.offset < 24 || l.offset.checked_add(size).map(|e| e > bytecode.len()).unwrap_or(true) {
            fail(res, "offset-outside-bytecode", format!("configurable `{}`: offset {} + slot size {size} is not inside the bytecode of {} bytes (after the 24 byte prelude)", c.name, l.offset, bytecode.len()));
            patchable = false;
            continue;
        }
        res.count("structural.default_bytes");
        let d = enc(&c.ty, &c.default);
        if bytecode[l.offset..l.offset + d.len()] != d[..] {
            fail(
                res,
                "bytes-at-offset-are-not-the-encoded-default",
                format!("configurable `{}`: `{}` at offset {}: expected the encoded default {} found {}", c.name, c.ty.name(), l.offset, hex::encode(&d[..d.len().min(48)]), hex::encode(&bytecode[l.offset..l.offset + d.len().min(48)])),
            );
        }
    }
    let mut by_off: Vec<&Listed> = listed.iter().collect();
    by_off.sort_by_key(|l| l.offset);
    for w in by_off.windows(2) {
        res.count("structural.disjoint");
        let a = &case.cfgs[w[0].k];
        if w[0].offset + a.ty.max_size() > w[1].offset {
            fail(res, "configurable-slots-overlap", format!("slot of `{}` [{}, {}) overlaps the slot of `{}` at {}", a.name, w[0].offset, w[0].offset + a.ty.max_size(), case.cfgs[w[1].k].name, w[1].offset));
        }
    }
    res.count("structural.prelude_word");
    if bytecode.len() >= 24 {
        let word = u64::from_be_bytes(bytecode[16..24].try_into().unwrap());
        let min = entries.iter().min_by_key(|e| e.offset).unwrap();
        if word != min.offset {
            fail(res, "prelude-word-is-not-the-smallest-offset", format!("prelude bytes 16..24 hold {word}, the smallest reported configurable offset is {} (`{}`)", min.offset, min.name));
        }
    }
    res.max("max_configurable_offset", by_off.last().unwrap().offset as u64);
    res.max("max_configurable_slot_bytes", listed.iter().map(|l| case.cfgs[l.k].ty.max_size()).max().unwrap_or(0) as u64);
    if !patchable {
        return false;
    }
    // --- patch runs
    let mut patterns: Vec<(&'static str, Vec<usize>)> = vec![("none", vec![])];
    for (i, _) in listed.iter().enumerate() {
        patterns.push(("single", vec![i]));
    }
    for i in 0..by_off.len().saturating_sub(1) {
        let a = listed.iter().position(|l| l.k == by_off[i].k).unwrap();
        let b = listed.iter().position(|l| l.k == by_off[i + 1].k).unwrap();
        patterns.push(("pair", vec![a, b]));
    }
    if listed.len() >= 2 {
        patterns.push(("all", (0..listed.len()).collect()));
    }
    let comp_types: Vec<T> = case.comps.iter().map(|c| comp_type(case, c)).collect();
    let ret_ty = if comp_types.len() == 1 { comp_types[0].clone() } else { T::Tuple(comp_types.clone()) };
    for (pname, which) in &patterns {
        let mut code = bytecode.to_vec();
        let mut vals: Vec<&V> = case.cfgs.iter().map(|c| &c.default).collect();
        for i in which {
            let l = &listed[*i];
            let c = &case.cfgs[l.k];
            let e = enc(&c.ty, &c.new);
            code[l.offset..l.offset + e.len()].copy_from_slice(&e);
            vals[l.k] = &c.new;
        }
        let patched_names = || which.iter().map(|i| case.cfgs[listed[*i].k].name.clone()).collect::<Vec<_>>().join("+");
        let obs = run_script(&code, &[]);
        res.count(&format!("patch_runs.{pname}"));
        if *pname == "single" && !case.cfgs[listed[which[0]].k].usage.observed() {
            // a listed configurable the program never reads: patching it must change nothing
            res.count("unread_configurable_patched");
        }
        let data = match &obs.outcome {
            Outcome::ReturnData(d) => d.clone(),
            Outcome::Return(v) => v.to_be_bytes().to_vec(),
            Outcome::VmError(e) => {
                res.inconclusive(format!("the VM refused the script: {e}"));
                continue;
            }
            other => {
                fail(res, "patched-run-does-not-return", format!("patch pattern {pname} [{}]: the script ended with {other:?} instead of returning", patched_names()));
                continue;
            }
        };
        // scripts returning a small copy type return it in a register
        let observed: Option<Vec<V>> = {
            let direct = |d: &[u8]| {
                let mut pos = 0;
                let v = decode(&ret_ty, d, &mut pos)?;
                if pos != d.len() {
                    return None;
                }
                Some(if comp_types.len() == 1 { vec![v] } else if let V::Seq(vs) = v { vs } else { return None })
            };
            match &obs.outcome {
                Outcome::Return(v) => {
                    // word returned in a register: low bytes hold the value
                    let n = ret_ty.max_size().min(8);
                    direct(&v.to_be_bytes()[8 - n..])
                }
                _ => direct(&data),
            }
        };
        let Some(observed) = observed else {
            fail(res, "return-data-is-not-an-encoding-of-the-return-type", format!("patch pattern {pname} [{}]: return data {} does not decode as {}", patched_names(), hex::encode(&data[..data.len().min(120)]), ret_ty.name()));
            continue;
        };
        for (ci, comp) in case.comps.iter().enumerate() {
            let expected = comp_val(case, comp, &vals);
            res.count("components_compared");
            res.count(&format!("component.{}", comp.kind()));
            let k = comp.cfg();
            let is_patched = which.iter().any(|i| listed[*i].k == k);
            if is_patched && expected != comp_val(case, comp, &case.cfgs.iter().map(|c| &c.default).collect::<Vec<_>>()) {
                res.count("components_changed_by_patch");
                if *pname == "single" {
                    changed_any = true;
                }
            }
            if observed[ci] != expected {
                let c = &case.cfgs[k];
                let ct = &comp_types[ci];
                let kind = if is_patched { "patched-value-not-observed" } else { "unpatched-configurable-changed" };
                fail(
                    res,
                    kind,
                    format!(
                        "patch pattern {pname} [{}]: component {ci} ({} of `{}`: {}, {}) observed {} expected {}",
                        patched_names(),
                        comp.kind(),
                        c.name,
                        c.ty.name(),
                        c.usage.name(),
                        short_val(ct, &observed[ci]),
                        short_val(ct, &expected)
                    ),
                );
                break;
            }
        }
        // logged configurables
        if obs.logs.len() == case.logged.len() {
            for (j, k) in case.logged.iter().enumerate() {
                res.count("components_compared");
                res.count("component.logged");
                let c = &case.cfgs[*k];
                let e = enc(&c.ty, vals[*k]);
                if obs.logs[j].1 != e {
                    let is_patched = which.iter().any(|i| listed[*i].k == *k);
                    let kind = if is_patched { "patched-value-not-observed" } else { "unpatched-configurable-changed" };
                    fail(res, kind, format!("patch pattern {pname} [{}]: log {j} of `{}` holds {} expected {}", patched_names(), c.name, hex::encode(&obs.logs[j].1[..obs.logs[j].1.len().min(60)]), hex::encode(&e[..e.len().min(60)])));
                    break;
                }
            }
        } else {
            fail(res, "number-of-logs-differs", format!("patch pattern {pname} [{}]: {} logs observed, the program logs {} values", patched_names(), obs.logs.len(), case.logged.len()));
        }
    }
    changed_any
}

fn abi_of(pkg: &forc_pkg::CompiledPackage) -> Option<fabi::ProgramABI> {
    match &pkg.program_abi {
        sway_core::asm_generation::ProgramABI::Fuel(a) => Some(a.clone()),
        _ => None,
    }
}

pub fn run_case(am: &mut Amortised, case: &Case, res: &mut ShardResult, replay: &Value) {
    res.evaluations += 1;
    let mut ok_profiles = 0;
    let mut changed = false;
    let mut max_listed = 0;
    for profile in Profile::BOTH {
        let c = match catch(AssertUnwindSafe(|| am.compile("c13case", &case.src, profile))) {
            Err((loc, msg)) => {
                res.count("compiler_panics");
                res.inconclusive(format!("compiler panicked at {loc}: {}", msg.chars().take(100).collect::<String>()));
                let keep = work_dir("rejected").join(format!("C13_panic_{}.sw", bucket(&msg).replace([' ', '#'], "_")));
                if !keep.exists() {
                    let _ = std::fs::write(&keep, format!("// {loc}: {msg}\n{}", case.src));
                }
                let _ = std::fs::remove_dir_all(am.last_dir());
                continue;
            }
            Ok(Err(_)) => {
                res.count("rejected");
                let dir = am.last_dir();
                let msg = first_error_text(am, &dir, profile);
                res.count(&format!("rejected.{}", bucket(&msg)));
                res.inconclusive(format!("generated program rejected ({}): {}", profile.name(), msg.chars().take(160).collect::<String>()));
                let keep = work_dir("rejected").join(format!("C13_{}.sw", bucket(&msg).replace([' ', '#'], "_")));
                if !keep.exists() {
                    let _ = std::fs::write(&keep, format!("// {msg}\n{}", case.src));
                }
                let _ = std::fs::remove_dir_all(&dir);
                continue;
            }
            Ok(Ok(c)) => c,
        };
        let Some(abi) = abi_of(&c.pkg) else {
            res.inconclusive("no Fuel ABI produced");
            am.remove(&c);
            continue;
        };
        res.count(&format!("programs_checked.{}", profile.name()));
        ok_profiles += 1;
        max_listed = max_listed.max(abi.configurables.as_ref().map(|c| c.len()).unwrap_or(0));
        // The amortised engine reuses one `Engines` for many packages, which forc never does: a
        // failed check is only reported when a fresh compiler instance (plain forc build of the
        // same directory) shows it too.
        let mut first = ShardResult::default();
        let ch = check_build(case, &c.pkg.bytecode.bytes, &abi, profile, &mut first, replay);
        if first.violations.is_empty() {
            changed |= ch;
            res.merge(first);
        } else {
            res.count("failed_checks_rechecked_with_fresh_compiler");
            match catch(AssertUnwindSafe(|| plain_build(&c.dir, profile))) {
                Ok(Ok(built)) => {
                    let abi2 = match &built.program_abi {
                        sway_core::asm_generation::ProgramABI::Fuel(a) => Some(a.clone()),
                        _ => None,
                    };
                    match abi2 {
                        Some(abi2) => {
                            let mut second = ShardResult::default();
                            let ch2 = check_build(case, &built.bytecode.bytes, &abi2, profile, &mut second, replay);
                            if second.violations.is_empty() {
                                res.count("not_reproduced_with_fresh_compiler");
                                res.inconclusive(format!(
                                    "a check failed on the build of the amortised engine ({}) but not on a plain forc build of the same package: artefact of reusing one compiler instance, not reported",
                                    first.violations[0].description.chars().take(160).collect::<String>()
                                ));
                                let keep = work_dir("rejected").join(format!("C13_amortised_only_{:016x}.sw", hash64(case.src.as_bytes())));
                                let _ = std::fs::write(&keep, format!("// {}\n{}", first.violations[0].description, case.src));
                            }
                            changed |= ch2;
                            res.merge(second);
                        }
                        None => res.inconclusive("no Fuel ABI produced by the plain build"),
                    }
                }
                _ => {
                    res.count("fresh_compiler_recheck_failed");
                    res.inconclusive("a check failed on the build of the amortised engine and the plain forc build of the same package failed: not reported");
                }
            }
        }
        am.remove(&c);
    }
    if ok_profiles > 0 {
        for c in &case.cfgs {
            res.count(&format!("cfg_ctor.{}", c.ty.ctor()));
            res.count(&format!("cfg_usage.{}", c.usage.name()));
            let mut nested = vec![];
            c.ty.nested_ctors(&mut nested);
            for n in nested.iter().skip(1) {
                res.count(&format!("cfg_nested_ctor.{n}"));
            }
            res.max("max_type_depth", c.ty.depth() as u64);
        }
        res.count(&format!("configurables_per_program.{:02}", case.cfgs.len()));
        res.add("configurables_total", case.cfgs.len() as u64);
    }
    if ok_profiles == 2 && max_listed >= 2 && changed {
        res.note_nontrivial(hash64(case.src.as_bytes()));
    }
    if ok_profiles == 2 && res.samples.len() < 2 && case.cfgs.len() >= 3 && case.src.len() < 2500 {
        res.sample(json!({"source": case.src, "replacements": case.cfgs.iter().map(|c| json!({"name": c.name, "new": short_val(&c.ty, &c.new)})).collect::<Vec<_>>()}));
    }
}

fn case_at(seed: u64, shard: u64, index: u64) -> Case {
    let mut rng = rng_for(seed ^ 0x0c13, shard, index);
    gen_case(&mut rng)
}

fn shard(ctx: &ShardCtx) -> ShardResult {
    let mut res = ShardResult::default();
    let mut am = Amortised::new(&ctx.work());
    if let Err(e) = am.warm() {
        res.harness_fault = Some(format!("std does not compile: {e}"));
        return res;
    }
    let mut i = ctx.first_index;
    // the time budget bounds the exploration, it is not a verdict: on an overloaded machine the
    // compilation of std alone can exceed it, so a minimum number of programs is always run
    // and std (compiled twice per worker) must not eat the whole budget: at least 20 s of exploration
    let warm_end = std::time::Instant::now();
    while ctx.time_left() || warm_end.elapsed().as_secs() < 20 || (ctx.first_index == 0 && i < 6) {
        let case = case_at(ctx.seed, ctx.shard, i);
        journal_current(ctx, &case.src);
        ctx.begin_case(i, &case.src, &res);
        let replay = json!({"seed": ctx.seed, "shard": ctx.shard, "index": i, "source": case.src});
        run_case(&mut am, &case, &mut res, &replay);
        ctx.end_case();
        i += 1;
    }
    res
}

fn replay(case: &Value) -> ShardResult {
    let mut res = ShardResult::default();
    let (Some(seed), Some(shard), Some(index)) = (case.get("seed").and_then(|v| v.as_u64()), case.get("shard").and_then(|v| v.as_u64()), case.get("index").and_then(|v| v.as_u64())) else {
        res.harness_fault = Some("replay file lacks seed/shard/index".into());
        return res;
    };
    let c = case_at(seed, shard, index);
    if case.get("source").and_then(|v| v.as_str()) != Some(c.src.as_str()) {
        res.harness_fault = Some("the generator no longer reproduces the recorded program (see `source` in the replay file)".into());
        return res;
    }
    let work = work_dir("C13").join("replay");
    clean_dir(&work);
    let mut am = Amortised::new(&work);
    run_case(&mut am, &c, &mut res, case);
    res
}

// ------------------------------------------------------------------------------------------
// Oracle self test: `swverif c13-selftest` feeds the oracle real builds whose ABI / bytecode were
// tampered with the way a broken compiler would produce them and expects every one to be flagged.

fn subcommand(args: &[String]) -> Option<i32> {
    match args.first().map(|s| s.as_str()) {
        Some("c13-selftest") => Some(selftest()),
        Some("c13-abi") => {
            // print the JSON ABI (and the prelude word) of a script file, release profile
            let src = std::fs::read_to_string(&args[1]).expect("read source");
            let work = work_dir("C13_abi");
            clean_dir(&work);
            let mut am = Amortised::new(&work);
            match am.compile("c13case", &src, Profile::Release) {
                Ok(c) => {
                    let abi = abi_of(&c.pkg).expect("fuel abi");
                    println!("{}", serde_json::to_string_pretty(&abi).unwrap());
                    let b = &c.pkg.bytecode.bytes;
                    println!("bytecode {} bytes, prelude word {}", b.len(), u64::from_be_bytes(b[16..24].try_into().unwrap()));
                    Some(0)
                }
                Err(e) => {
                    println!("rejected: {e}");
                    Some(1)
                }
            }
        }
        Some("c13-show") => {
            let seed = args.get(1).and_then(|s| s.parse().ok()).unwrap_or(1);
            let shard = args.get(2).and_then(|s| s.parse().ok()).unwrap_or(0);
            let index = args.get(3).and_then(|s| s.parse().ok()).unwrap_or(0);
            println!("{}", case_at(seed, shard, index).src);
            Some(0)
        }
        _ => None,
    }
}

fn selftest() -> i32 {
    let work = work_dir("C13_selftest");
    clean_dir(&work);
    let mut am = Amortised::new(&work);
    let mut failures = 0;
    let mut tried: BTreeMap<&'static str, (u32, u32)> = BTreeMap::new();
    let mut programs = 0;
    for index in 0..400u64 {
        let case = case_at(4242, 0, index);
        let observed: Vec<usize> = (0..case.cfgs.len()).filter(|k| case.cfgs[*k].usage.observed()).collect();
        if observed.len() < 2 {
            continue;
        }
        let Ok(Ok(c)) = catch(AssertUnwindSafe(|| am.compile("c13case", &case.src, Profile::Release))) else { continue };
        let Some(abi) = abi_of(&c.pkg) else { continue };
        let code = c.pkg.bytecode.bytes.clone();
        am.remove(&c);
        let mut base = ShardResult::default();
        check_build(&case, &code, &abi, Profile::Release, &mut base, &json!({}));
        if !base.violations.is_empty() {
            println!("selftest: unmodified build is flagged: {}", base.violations[0].description);
            failures += 1;
            continue;
        }
        programs += 1;
        let cfgs = abi.configurables.clone().unwrap_or_default();
        let mut mutants: Vec<(&'static str, fabi::ProgramABI, Vec<u8>)> = vec![];
        // 1. every offset shifted by one word
        let mut a = abi.clone();
        a.configurables.as_mut().unwrap().iter_mut().for_each(|c| c.offset += 8);
        mutants.push(("offsets_shifted_by_8", a, code.clone()));
        // 2. offsets of two configurables exchanged (ABI order != data section order)
        if cfgs.len() >= 2 {
            let mut a = abi.clone();
            let v = a.configurables.as_mut().unwrap();
            let (o0, o1) = (v[0].offset, v[1].offset);
            v[0].offset = o1;
            v[1].offset = o0;
            mutants.push(("two_offsets_exchanged", a, code.clone()));
        }
        // 3. a configurable without a data section entry left in the list (offset never fixed up)
        {
            let mut a = abi.clone();
            let v = a.configurables.as_mut().unwrap();
            let k = v.iter().position(|e| case.cfgs.iter().any(|c| c.name == e.name && !c.usage.observed())).unwrap_or(v.len() - 1);
            v[k].offset = 0;
            mutants.push(("dead_configurable_listed_without_offset", a, code.clone()));
        }
        // 4. a used configurable missing from the ABI
        {
            let mut a = abi.clone();
            let name = &case.cfgs[observed[0]].name;
            a.configurables.as_mut().unwrap().retain(|c| &c.name != name);
            mutants.push(("used_configurable_missing", a, code.clone()));
        }
        // 5. prelude word not updated
        {
            let mut b = code.clone();
            b[16..24].copy_from_slice(&0u64.to_be_bytes());
            mutants.push(("prelude_word_zero", abi.clone(), b));
        }
        // 6. the program ignores the slot of one configurable (its default was folded into the code):
        //    simulated by giving the ABI entry the offset of a scratch copy appended to the bytecode
        {
            let k = observed[0];
            let c = &case.cfgs[k];
            if c.new != c.default {
                let mut a = abi.clone();
                let mut b = code.clone();
                let e = a.configurables.as_mut().unwrap().iter_mut().find(|e| e.name == c.name).unwrap();
                let old = e.offset as usize;
                let size = c.ty.max_size();
                // keep the prelude check out of the way: only when it is not the smallest offset
                let min = cfgs.iter().map(|e| e.offset).min().unwrap();
                if old as u64 != min {
                    e.offset = b.len() as u64;
                    let copy = b[old..old + size].to_vec();
                    b.extend(copy);
                    mutants.push(("slot_not_read_by_program", a, b));
                }
            }
        }
        // 7. wrong type id on an entry
        if cfgs.len() >= 2 {
            let t0 = case.cfgs.iter().find(|c| c.name == cfgs[0].name).map(|c| c.ty.clone());
            if let Some(other) = cfgs.iter().find(|e| case.cfgs.iter().find(|c| c.name == e.name).map(|c| Some(&c.ty) != t0.as_ref()).unwrap_or(false)) {
                let mut a = abi.clone();
                a.configurables.as_mut().unwrap()[0].concrete_type_id = other.concrete_type_id.clone();
                mutants.push(("wrong_concrete_type_id", a, code.clone()));
            }
        }
        for (name, a, b) in mutants {
            let mut r = ShardResult::default();
            check_build(&case, &b, &a, Profile::Release, &mut r, &json!({}));
            let e = tried.entry(name).or_insert((0, 0));
            e.0 += 1;
            if r.violations.is_empty() {
                println!("selftest: mutant {name} of program {index} was NOT flagged");
                failures += 1;
            } else {
                e.1 += 1;
            }
        }
        if programs >= 40 {
            break;
        }
    }
    for (k, (n, hit)) in &tried {
        println!("selftest: {k}: flagged {hit} of {n}");
    }
    println!("selftest: {programs} programs, {failures} failures");
    if failures == 0 && programs >= 10 && tried.values().all(|(n, _)| *n > 0) && tried.len() == 7 {
        0
    } else {
        1
    }
}
