//! C11: contract calls dispatch to the named method with intact arguments.
//!
//! Monitor: random contract ABIs with adversarially chosen method names are compiled by the real
//! forc-test flow (`engine::run_unit_tests`): forc-test deploys the contract and runs `#[test]`
//! functions which call it through `abi(Gen, CONTRACT_ID)` (the compiler-generated selector
//! buffer) or through `std::codec::contract_call` with a hand-built method-name buffer - a real
//! in-VM CALL either way. Every method logs a marker carrying its index and each decoded
//! argument and returns a deterministic function of its arguments; right after the call the test
//! logs the data the callee returned (the RETD pointer / length it finds in `ret` / `retl`) and the
//! decoded result. The harness compares the receipts of every test with its own model of the
//! calls (expected bytes come from the harness's own encoder of the ABI specification).
//! Unknown and near-miss selectors must revert (no fallback) or run the fallback (declared).
//! Shard 0 first runs the oracle on synthetic honest / corrupted receipts (`c11selftest`).
use crate::common::*;
use crate::engine::*;
use crate::{Plan, Prop};
use rand::seq::SliceRandom;
use rand::{rngs::StdRng, Rng};
use serde_json::{json, Value};
use std::collections::BTreeSet;
use std::fmt::Write;
use std::panic::AssertUnwindSafe;

#[path = "c11_abi.rs"]
pub mod abi;
use abi::*;

pub static META: PropertyMeta = PropertyMeta {
    id: "C11",
    level: "exploration",
    rule: "random contract ABIs (1..12 methods; names from adversarial families: prefix chains, equal lengths, names that are substrings of the concatenated name table, single characters, names longer than 32/64 bytes, case variants, suffix families, raw identifiers; 0..4 arguments and a result over u8..u256, bool, b256, str[N], tuples, arrays, structs, enums, Vec<u64>, Bytes, String), with and without a #[fallback], x ~20-40 in-VM calls (through abi(..) casts and through std::codec::contract_call with hand-built selectors, known and unknown/near-miss names) x {debug, release}; an evaluation = one in-VM contract call whose receipts were compared with the model; non-trivial = the call carried at least one argument or returned a value or named no method; distinct = hash of (package source, profile, test, step)",
    assumptions: &[
        "fuel-vm and forc-test's deployment/executor are the trusted execution substrate",
        "std::logging::log of a value emits its canonical ABI encoding (property C09's subject); the expected bytes are computed by the harness's own encoder",
        "a call naming no method must revert when no fallback is declared (any revert code is accepted; 123 is counted)",
    ],
    floor_evaluations: 40,
    floor_nontrivial: 20,
    required_counters: &[
        "packages_executed",
        "methods",
        "calls_abi_cast",
        "calls_low_level_known_name",
        "unknown_selector_with_fallback",
        "unknown_selector_without_fallback",
        "unknown_selector_reverted",
        "fallback_ran",
        "profile.debug",
        "profile.release",
        "oracle_selftest_corruption_classes_detected",
        "class.prefix_of_another",
        "class.equal_length",
    ],
};

pub static PROP: Prop = Prop {
    meta: &META,
    plan: |t| {
        // A forc-test build of one generated contract takes 4-15 s of CPU; on a loaded machine
        // 16 concurrent builds can exceed the default 60 s per-case watchdog without any
        // non-termination being involved. The shard processes inherit this setting.
        if std::env::var("SWVERIF_CASE_WATCHDOG_S").is_err() {
            std::env::set_var("SWVERIF_CASE_WATCHDOG_S", "300");
        }
        Plan { nshards: 16, budget_s: t.pick(50.0, 1000.0), mem_gib: 6 }
    },
    shard,
    replay,
    extra: crate::no_extra,
    subcommand,
};

const MARK_METHOD: u64 = 0xC11A_0000;
const MARK_UNIT: u64 = 0xC11B_0000;
const MARK_FALLBACK: u64 = 0xC11F_A11B;
const MARK_AFTER_REVERT: u64 = 0xC11D_EAD0;

const KEYWORDS: &[&str] = &[
    "abi", "as", "asm", "break", "const", "continue", "contract", "configurable", "dep", "else", "enum", "false", "fn", "for", "if", "impl", "in", "let", "library", "match", "mod", "mut", "predicate", "pub", "ref", "return", "script", "self", "Self", "storage", "str", "struct", "trait", "true", "type", "use", "where", "while", "u8", "u16", "u32", "u64", "u256", "b256", "bool", "panic", "main", "log", "encode",
];

#[derive(Clone, Debug)]
enum Ret {
    Unit,
    Const(Ty, Val),
    Echo(usize),
    /// tuple of the listed arguments followed by a u64 constant that depends on the method index
    Mix(Vec<usize>),
}

#[derive(Clone, Debug)]
struct Method {
    /// as written in the source (may carry r#)
    name: String,
    args: Vec<Ty>,
    ret: Ret,
}

impl Method {
    fn selector(&self) -> &str {
        self.name.strip_prefix("r#").unwrap_or(&self.name)
    }
}

#[derive(Clone, Debug)]
enum Step {
    Known { m: usize, args: Vec<Val>, low_level: bool },
    Unknown { name: String },
}

#[derive(Clone, Debug)]
struct TestFn {
    steps: Vec<Step>,
    /// the last step is an unknown selector and no fallback exists
    expect_revert: bool,
}

#[derive(Clone, Debug)]
struct Spec {
    types: Types,
    methods: Vec<Method>,
    /// Some(None) = fallback returning unit
    fallback: Option<Option<(Ty, Val)>>,
    fallback_name: String,
    tests: Vec<TestFn>,
    family: &'static str,
}

// ------------------------------------------------------------------------------------------
// names

fn ok_ident(s: &str) -> bool {
    let bare = s.strip_prefix("r#").unwrap_or(s);
    if bare.is_empty() || bare.starts_with("__") {
        return false;
    }
    let mut cs = bare.chars();
    let f = cs.next().unwrap();
    if !(f.is_ascii_alphabetic() || f == '_') {
        return false;
    }
    if bare == "_" {
        return false;
    }
    if !bare.chars().all(|c| c.is_ascii_alphanumeric() || c == '_') {
        return false;
    }
    if !s.starts_with("r#") && KEYWORDS.contains(&bare) {
        return false;
    }
    true
}

fn rand_ident(rng: &mut StdRng, len: usize) -> String {
    const F: &[u8] = b"abcdefghijklmnopqrstuvwxyzABCDEFGHIJKLMNOPQRSTUVWXYZ";
    const R: &[u8] = b"abcdefghijklmnopqrstuvwxyzABCDEFGHIJKLMNOPQRSTUVWXYZ0123456789_";
    let mut s = String::new();
    s.push(F[rng.gen_range(0..F.len())] as char);
    while s.len() < len {
        let c = R[rng.gen_range(0..R.len())] as char;
        // no double underscores (reserved prefixes) to stay clearly inside the identifier grammar
        if c == '_' && s.ends_with('_') {
            continue;
        }
        s.push(c);
    }
    s
}

fn name_pool(rng: &mut StdRng, family: usize) -> (Vec<String>, &'static str) {
    match family {
        0 => {
            let base = *choose(rng, &["transfer_from_account_to", "get_balance_of_owner_at", "set_owner_and_admin_id", "abcdefghijklmnopqrstuvwxyz", "mint_to_address_amount"]);
            ((1..=base.len()).map(|l| base[..l].to_string()).collect(), "prefix_chain")
        }
        1 => {
            let l = *choose(rng, &[1usize, 2, 3, 4, 8, 31, 32, 33]);
            let mut v = BTreeSet::new();
            if l <= 3 {
                let letters: &[u8] = if l == 1 { b"abcdefghijklmnop" } else { b"ab" };
                for _ in 0..200 {
                    let s: String = (0..l).map(|_| letters[rng.gen_range(0..letters.len())] as char).collect();
                    v.insert(s);
                }
            } else {
                let base = rand_ident(rng, l);
                v.insert(base.clone());
                for _ in 0..40 {
                    let mut b: Vec<u8> = base.clone().into_bytes();
                    // one position differs: concentrate on the first, the last and the word boundaries
                    let pos = *choose(rng, &[l - 1, l - 1, 0, 7.min(l - 1), 8.min(l - 1), l / 2]);
                    let pos = if pos == 0 { 0 } else { pos };
                    let c = if pos == 0 { b"abcdefghijklmnopqrstuvwxyz"[rng.gen_range(0..26)] } else { b"abcdefghijklmnopqrstuvwxyz0123456789"[rng.gen_range(0..36)] };
                    b[pos] = c;
                    v.insert(String::from_utf8(b).unwrap());
                }
            }
            (v.into_iter().collect(), "equal_length")
        }
        2 => (["ab", "bc", "abbc", "bcab", "ca", "abc", "cab", "bca", "b", "a", "c", "cabbc", "bb", "abb", "bbc"].iter().map(|s| s.to_string()).collect(), "table_overlap"),
        3 => {
            let l = *choose(rng, &[33usize, 40, 64, 65, 70, 100]);
            let base = rand_ident(rng, l);
            let mut v = BTreeSet::new();
            v.insert(base.clone());
            for cut in [31usize, 32, 33, 63, 64, 65] {
                if cut < l {
                    v.insert(base[..cut].to_string());
                }
            }
            for pos in [l - 1, 31, 32, 33.min(l - 1), 63.min(l - 1), 64.min(l - 1), l / 2] {
                let mut b = base.clone().into_bytes();
                b[pos] = if b[pos] == b'q' { b'z' } else { b'q' };
                v.insert(String::from_utf8(b).unwrap());
            }
            v.insert(format!("{base}x"));
            (v.into_iter().collect(), "long_names")
        }
        4 => (["foo", "Foo", "fOo", "foO", "FOO", "FOo", "fOO", "FoO", "foo_", "Foo_", "fo", "Fo"].iter().map(|s| s.to_string()).collect(), "case_variants"),
        5 => (["get", "target", "budget", "forget", "et", "t", "widget", "get_", "_get", "getget", "ge", "g"].iter().map(|s| s.to_string()).collect(), "suffix_family"),
        6 => (["r#fn", "r#struct", "r#abi", "r#impl", "r#let", "r#use", "r#match", "f", "fn_", "fnn", "structs", "abi_"].iter().map(|s| s.to_string()).collect(), "raw_identifiers"),
        7 => {
            let mut v = BTreeSet::new();
            for _ in 0..24 {
                let l = rng.gen_range(1..=14);
                v.insert(rand_ident(rng, l));
            }
            (v.into_iter().collect(), "random")
        }
        _ => {
            let mut v = BTreeSet::new();
            for f in 0..8 {
                let (p, _) = name_pool(rng, f);
                for s in p.choose_multiple(rng, 3) {
                    v.insert(s.clone());
                }
            }
            (v.into_iter().collect(), "mixed")
        }
    }
}

/// Names that are NOT methods of the contract: near misses of the real ones and substrings of
/// the concatenated name table.
fn unknown_names(rng: &mut StdRng, real: &[String], want: usize) -> Vec<String> {
    let mut c: Vec<String> = vec![String::new()];
    for n in real {
        if n.len() > 1 {
            c.push(n[..n.len() - 1].to_string());
            c.push(n[1..].to_string());
        }
        c.push(format!("{n}x"));
        c.push(format!("{n}{n}"));
        c.push(format!("{n}_"));
        let mut b = n.clone().into_bytes();
        b[0] = if b[0].is_ascii_uppercase() { b[0].to_ascii_lowercase() } else { b[0].to_ascii_uppercase() };
        c.push(String::from_utf8(b).unwrap());
        let mut b = n.clone().into_bytes();
        let l = b.len() - 1;
        b[l] = if b[l] == b'z' { b'y' } else { b'z' };
        c.push(String::from_utf8(b).unwrap());
        let mut b = n.clone().into_bytes();
        b[0] = if b[0] == b'z' { b'y' } else { b'z' };
        c.push(String::from_utf8(b).unwrap());
    }
    // substrings of the concatenated name table with the length of a real name
    let table: String = real.concat();
    for _ in 0..12 {
        let l = real[rng.gen_range(0..real.len())].len();
        if l <= table.len() {
            let off = rng.gen_range(0..=table.len() - l);
            c.push(table[off..off + l].to_string());
        }
    }
    c.push("z".repeat(200));
    c.push(rand_ident(rng, 6));
    let mut seen = BTreeSet::new();
    let mut out: Vec<String> = c.into_iter().filter(|s| !real.contains(s) && s.bytes().all(|b| b.is_ascii_alphanumeric() || b == b'_') && seen.insert(s.clone())).collect();
    out.shuffle(rng);
    // the empty name is always worth a call
    if !out.iter().take(want).any(|s| s.is_empty()) && rng.gen_bool(0.5) {
        out.insert(0, String::new());
    }
    out.truncate(want);
    out
}

// ------------------------------------------------------------------------------------------
// generator

/// `variant` = shard + 5 * index: the name family and the presence of a fallback rotate with it
/// (so that a short run still covers every family, with and without fallback); everything
/// else is drawn from `rng`.
fn gen_spec(rng: &mut StdRng, variant: u64) -> Spec {
    let opts = TyOpts { arrays: true, strs: true, max_bytes: 160 };
    let types = gen_types(rng, &opts);
    let family = (variant % 9) as usize;
    let (mut pool, family_name) = name_pool(rng, family);
    pool.retain(|s| ok_ident(s));
    pool.sort();
    pool.dedup_by(|a, b| a.strip_prefix("r#").unwrap_or(a) == b.strip_prefix("r#").unwrap_or(b));
    pool.shuffle(rng);
    let want = match rng.gen_range(0..20) {
        0 | 1 => 1,
        2..=4 => 12,
        _ => rng.gen_range(2..=11),
    };
    let n = want.min(pool.len()).max(1);
    let names: Vec<String> = pool.into_iter().take(n).collect();
    let mut methods = vec![];
    for (idx, name) in names.iter().enumerate() {
        let nargs = match rng.gen_range(0..10) {
            0 => 0,
            1..=3 => 1,
            4..=6 => 2,
            7 | 8 => 3,
            _ => 4,
        };
        let args: Vec<Ty> = (0..nargs)
            .map(|_| {
                if rng.gen_bool(0.12) {
                    choose(rng, &[Ty::VecU64, Ty::Bytes, Ty::StdString]).clone()
                } else {
                    gen_ty(rng, &types, 2, &opts)
                }
            })
            .collect();
        let ret = match rng.gen_range(0..10) {
            0 | 1 => Ret::Unit,
            2..=4 => {
                let t = gen_ty(rng, &types, 2, &opts);
                let v = gen_val(rng, &t, &types);
                Ret::Const(t, v)
            }
            5 | 6 if nargs > 0 => Ret::Echo(rng.gen_range(0..nargs)),
            _ if nargs > 0 => {
                let k = rng.gen_range(1..=nargs.min(3));
                let mut ix: Vec<usize> = (0..nargs).collect();
                ix.shuffle(rng);
                ix.truncate(k);
                Ret::Mix(ix)
            }
            _ => Ret::Const(Ty::U64, Val::U(7000 + idx as u64)),
        };
        methods.push(Method { name: name.clone(), args, ret });
    }
    let fallback = if variant % 2 == 0 {
        if rng.gen_bool(0.3) {
            Some(None)
        } else {
            let t = gen_ty(rng, &types, 1, &opts);
            let v = gen_val(rng, &t, &types);
            Some(Some((t, v)))
        }
    } else {
        None
    };
    let real: Vec<String> = methods.iter().map(|m| m.selector().to_string()).collect();
    let fallback_name = if !real.iter().any(|r| r == "fallback") { "fallback".to_string() } else { "fb_handler".to_string() };

    // calls: every method at least once, then random ones
    let mut known: Vec<Step> = vec![];
    let total = (methods.len() + rng.gen_range(6..=14)).min(30);
    for k in 0..total {
        let m = if k < methods.len() { k } else { rng.gen_range(0..methods.len()) };
        let args = methods[m].args.iter().map(|t| gen_val(rng, t, &types)).collect();
        known.push(Step::Known { m, args, low_level: rng.gen_bool(0.2) });
    }
    known.shuffle(rng);
    let n_unknown = rng.gen_range(4..=8);
    let unknown = unknown_names(rng, &real, n_unknown);
    let mut tests = vec![];
    let mut it = known.into_iter().peekable();
    if fallback.is_some() {
        // unknown selectors interleaved with known calls
        let mut unk = unknown.into_iter().peekable();
        while it.peek().is_some() || unk.peek().is_some() {
            let mut steps = vec![];
            let k = rng.gen_range(3..=6);
            for _ in 0..k {
                if unk.peek().is_some() && (rng.gen_bool(0.3) || it.peek().is_none()) {
                    steps.push(Step::Unknown { name: unk.next().unwrap() });
                } else if let Some(s) = it.next() {
                    steps.push(s);
                }
            }
            if !steps.is_empty() {
                tests.push(TestFn { steps, expect_revert: false });
            }
        }
    } else {
        for name in unknown {
            let mut steps = vec![];
            if rng.gen_bool(0.5) {
                if let Some(s) = it.next() {
                    steps.push(s);
                }
            }
            steps.push(Step::Unknown { name });
            tests.push(TestFn { steps, expect_revert: true });
        }
        while it.peek().is_some() {
            let k = rng.gen_range(3..=6);
            let steps: Vec<Step> = it.by_ref().take(k).collect();
            tests.push(TestFn { steps, expect_revert: false });
        }
    }
    Spec { types, methods, fallback, fallback_name, tests, family: family_name }
}

fn ret_ty(m: &Method) -> Option<Ty> {
    match &m.ret {
        Ret::Unit => None,
        Ret::Const(t, _) => Some(t.clone()),
        Ret::Echo(k) => Some(m.args[*k].clone()),
        Ret::Mix(ix) => {
            let mut ts: Vec<Ty> = ix.iter().map(|k| m.args[*k].clone()).collect();
            ts.push(Ty::U64);
            Some(Ty::Tuple(ts))
        }
    }
}

fn ret_val(idx: usize, m: &Method, args: &[Val]) -> Option<Val> {
    match &m.ret {
        Ret::Unit => None,
        Ret::Const(_, v) => Some(v.clone()),
        Ret::Echo(k) => Some(args[*k].clone()),
        Ret::Mix(ix) => {
            let mut vs: Vec<Val> = ix.iter().map(|k| args[*k].clone()).collect();
            vs.push(Val::U(mix_const(idx)));
            Some(Val::Tuple(vs))
        }
    }
}

fn mix_const(idx: usize) -> u64 {
    0x5EED_0000_0000_0000u64 + 1_000_003u64 * (idx as u64 + 1)
}

fn args_tuple_ty(types: &Types, args: &[Ty]) -> String {
    if args.is_empty() {
        "()".into()
    } else {
        format!("({},)", args.iter().map(|t| types.name(t)).collect::<Vec<_>>().join(", "))
    }
}

fn render(spec: &Spec) -> String {
    let t = &spec.types;
    let mut s = String::new();
    s.push_str("contract;\n\nuse std::codec::*;\nuse std::bytes::Bytes;\nuse std::string::String;\n\n");
    s.push_str(&t.decls());
    s.push_str("\nabi Gen {\n");
    let sig = |m: &Method| -> String {
        let ps: Vec<String> = m.args.iter().enumerate().map(|(i, a)| format!("x{i}: {}", t.name(a))).collect();
        let r = ret_ty(m).map(|r| format!(" -> {}", t.name(&r))).unwrap_or_default();
        format!("fn {}({}){}", m.name, ps.join(", "), r)
    };
    for m in &spec.methods {
        let _ = writeln!(s, "    {};", sig(m));
    }
    s.push_str("}\n\nimpl Gen for Contract {\n");
    for (idx, m) in spec.methods.iter().enumerate() {
        let _ = writeln!(s, "    {} {{", sig(m));
        let _ = writeln!(s, "        log({}u64);", MARK_METHOD + idx as u64);
        for i in 0..m.args.len() {
            let _ = writeln!(s, "        log(x{i});");
        }
        match &m.ret {
            Ret::Unit => {}
            Ret::Const(ty, v) => {
                let _ = writeln!(s, "        {}", t.lit(ty, v));
            }
            Ret::Echo(k) => {
                let _ = writeln!(s, "        x{k}");
            }
            Ret::Mix(ix) => {
                let mut parts: Vec<String> = ix.iter().map(|k| format!("x{k}")).collect();
                parts.push(format!("{}u64", mix_const(idx)));
                let _ = writeln!(s, "        ({})", parts.join(", "));
            }
        }
        s.push_str("    }\n");
    }
    s.push_str("}\n\n");
    if let Some(fb) = &spec.fallback {
        match fb {
            None => {
                let _ = writeln!(s, "#[fallback]\nfn {}() {{\n    log({}u64);\n}}\n", spec.fallback_name, MARK_FALLBACK);
            }
            Some((ty, v)) => {
                let _ = writeln!(s, "#[fallback]\nfn {}() -> {} {{\n    log({}u64);\n    {}\n}}\n", spec.fallback_name, t.name(ty), MARK_FALLBACK, t.lit(ty, v));
            }
        }
    }
    // the data the last called contract returned: RETD's pointer and length as the caller sees them
    s.push_str("fn ret_data() -> raw_slice {\n    let p = asm() {\n        ret: raw_ptr\n    };\n    let l = asm() {\n        retl: u64\n    };\n    raw_slice::from_parts::<u8>(p, l)\n}\n\n");
    for (ti, test) in spec.tests.iter().enumerate() {
        let _ = writeln!(s, "#[test]\nfn t{ti}() {{");
        if test.steps.iter().any(|st| matches!(st, Step::Known { low_level: false, .. })) {
            s.push_str("    let c = abi(Gen, CONTRACT_ID);\n");
        }
        for (si, st) in test.steps.iter().enumerate() {
            match st {
                Step::Known { m, args, low_level } => {
                    let meth = &spec.methods[*m];
                    let lits: Vec<String> = meth.args.iter().zip(args).map(|(ty, v)| t.lit(ty, v)).collect();
                    let rt = ret_ty(meth);
                    let rname = rt.as_ref().map(|r| t.name(r)).unwrap_or_else(|| "()".into());
                    let call = if *low_level {
                        let tuple = if lits.is_empty() { "()".to_string() } else { format!("({},)", lits.join(", ")) };
                        format!("contract_call::<{}, {}>(CONTRACT_ID, encode(\"{}\"), {}, 0u64, b256::zero(), u64::max())", rname, args_tuple_ty(t, &meth.args), meth.selector(), tuple)
                    } else {
                        format!("c.{}({})", meth.name, lits.join(", "))
                    };
                    if rt.is_some() {
                        let _ = writeln!(s, "    let r{si}: {rname} = {call};\n    log(ret_data());\n    log(r{si});");
                    } else {
                        let _ = writeln!(s, "    {call};\n    log(ret_data());\n    log({}u64);", MARK_UNIT + si as u64);
                    }
                }
                Step::Unknown { name } => {
                    let (rname, has) = match &spec.fallback {
                        Some(Some((ty, _))) => (t.name(ty), true),
                        _ => ("()".to_string(), false),
                    };
                    let call = format!("contract_call::<{rname}, ()>(CONTRACT_ID, encode(\"{name}\"), (), 0u64, b256::zero(), u64::max())");
                    if has {
                        let _ = writeln!(s, "    let r{si}: {rname} = {call};\n    log(ret_data());\n    log(r{si});");
                    } else if test.expect_revert {
                        let _ = writeln!(s, "    {call};\n    log({MARK_AFTER_REVERT}u64);");
                    } else {
                        let _ = writeln!(s, "    {call};\n    log(ret_data());\n    log({}u64);", MARK_UNIT + si as u64);
                    }
                }
            }
        }
        s.push_str("}\n\n");
    }
    s
}

// ------------------------------------------------------------------------------------------
// observation: the log receipts of one test, in order

/// A log entry of the test script (caller) or of the called contract (callee).
#[derive(Clone, Debug, PartialEq, Eq)]
struct Obs {
    /// emitted inside the called contract
    callee: bool,
    data: Vec<u8>,
}

struct RawTest {
    name: String,
    passed: bool,
    outcome: Outcome,
    obs: Vec<Obs>,
    /// number of different non-zero contract ids seen in the receipts
    contract_ids: usize,
}

fn raw_of(t: &UnitTestOutcome) -> RawTest {
    let nonzero = |id: &String| id.bytes().any(|b| b != b'0');
    let ids: BTreeSet<&String> = t.logs.iter().map(|(id, _, _)| id).filter(|id| nonzero(id)).collect();
    RawTest { name: t.name.clone(), passed: t.passed, outcome: t.outcome.clone(), obs: t.logs.iter().map(|(id, _, d)| Obs { callee: nonzero(id), data: d.clone() }).collect(), contract_ids: ids.len() }
}

/// what `log(raw_slice::from_parts::<u8>(ret, retl))` emits in the caller right after the call:
/// the data the callee returned (RETD pointer and length), length-prefixed as every raw_slice
fn returned_log(data: &[u8]) -> Vec<u8> {
    let mut v = (data.len() as u64).to_be_bytes().to_vec();
    v.extend(data);
    v
}

// ------------------------------------------------------------------------------------------
// model of the receipts

#[derive(Clone, Debug, PartialEq)]
enum Role {
    Marker,
    Arg(usize),
    /// the data returned by the callee (RETD pointer / length registers read by the caller)
    Returned,
    /// what the caller decoded and logged
    Result,
    FallbackMarker,
    FallbackReturned,
    FallbackResult,
}

struct Expected {
    entry: Obs,
    step: usize,
    role: Role,
}

fn expected_of(spec: &Spec, test: &TestFn) -> Vec<Expected> {
    let t = &spec.types;
    let u = |x: u64| x.to_be_bytes().to_vec();
    let log = |callee: bool, data: Vec<u8>| Obs { callee, data };
    let mut out = vec![];
    for (si, st) in test.steps.iter().enumerate() {
        match st {
            Step::Known { m, args, .. } => {
                let meth = &spec.methods[*m];
                out.push(Expected { entry: log(true, u(MARK_METHOD + *m as u64)), step: si, role: Role::Marker });
                for (i, (ty, v)) in meth.args.iter().zip(args).enumerate() {
                    out.push(Expected { entry: log(true, t.encoded(ty, v)), step: si, role: Role::Arg(i) });
                }
                match (ret_ty(meth), ret_val(*m, meth, args)) {
                    (Some(rt), Some(rv)) => {
                        let data = t.encoded(&rt, &rv);
                        out.push(Expected { entry: log(false, returned_log(&data)), step: si, role: Role::Returned });
                        out.push(Expected { entry: log(false, data), step: si, role: Role::Result });
                    }
                    _ => {
                        out.push(Expected { entry: log(false, returned_log(&[])), step: si, role: Role::Returned });
                        out.push(Expected { entry: log(false, u(MARK_UNIT + si as u64)), step: si, role: Role::Result });
                    }
                }
            }
            Step::Unknown { .. } => match &spec.fallback {
                None => break,
                Some(fb) => {
                    out.push(Expected { entry: log(true, u(MARK_FALLBACK)), step: si, role: Role::FallbackMarker });
                    match fb {
                        Some((ty, v)) => {
                            let data = t.encoded(ty, v);
                            out.push(Expected { entry: log(false, returned_log(&data)), step: si, role: Role::FallbackReturned });
                            out.push(Expected { entry: log(false, data), step: si, role: Role::FallbackResult });
                        }
                        None => {
                            out.push(Expected { entry: log(false, returned_log(&[])), step: si, role: Role::FallbackReturned });
                            out.push(Expected { entry: log(false, u(MARK_UNIT + si as u64)), step: si, role: Role::FallbackResult });
                        }
                    }
                }
            },
        }
    }
    out
}

fn is_method_marker(spec: &Spec, e: &Obs) -> Option<usize> {
    if e.callee && e.data.len() == 8 {
        let v = u64::from_be_bytes(e.data.clone().try_into().unwrap());
        if v >= MARK_METHOD && v < MARK_METHOD + spec.methods.len() as u64 {
            return Some((v - MARK_METHOD) as usize);
        }
    }
    None
}

fn step_desc(spec: &Spec, st: &Step) -> String {
    match st {
        Step::Known { m, low_level, .. } => format!("call of method #{m} `{}` ({})", spec.methods[*m].name, if *low_level { "std::codec::contract_call" } else { "abi cast" }),
        Step::Unknown { name } => format!("call of unknown selector \"{}\"", if name.len() > 40 { format!("{}..", &name[..40]) } else { name.clone() }),
    }
}

fn who(o: &Obs) -> &'static str {
    if o.callee {
        "a callee log"
    } else {
        "a caller log"
    }
}

/// Compare one executed test with the model. Returns Err((kind, description)) on a refutation.
fn check_test(spec: &Spec, test: &TestFn, out: &RawTest, res: &mut ShardResult) -> Result<(), (String, String)> {
    let fb_mark = MARK_FALLBACK.to_be_bytes().to_vec();
    let observed = &out.obs;
    // everything emitted by a callee must come from one contract
    if out.contract_ids > 1 {
        return Err(("receipts-from-several-contracts".into(), format!("callee receipts carry {} different contract ids", out.contract_ids)));
    }
    let expected = expected_of(spec, test);
    for (k, ex) in expected.iter().enumerate() {
        let st = &test.steps[ex.step];
        match observed.get(k) {
            None => {
                let why = format!("{:?}", out.outcome);
                return Err((
                    if out.outcome.reverted() { "unexpected-revert".into() } else { "missing-receipt".into() },
                    format!("step {} ({}): the receipts end after {} entries (outcome {why}); expected {:?} entry {}", ex.step, step_desc(spec, st), observed.len(), ex.role, short_hex(&ex.entry.data)),
                ));
            }
            Some(ob) if *ob == ex.entry => {}
            Some(ob) => {
                let kind = match ex.role {
                    Role::Marker => {
                        if ob.callee && ob.data == fb_mark {
                            "known-name-reached-fallback"
                        } else if is_method_marker(spec, ob).is_some() {
                            "wrong-method-executed"
                        } else {
                            "method-marker-mismatch"
                        }
                    }
                    Role::Arg(_) => "argument-mismatch",
                    Role::Returned => "returned-data-mismatch",
                    Role::Result => "result-mismatch",
                    Role::FallbackMarker => {
                        if is_method_marker(spec, ob).is_some() {
                            "unknown-selector-executed-a-method"
                        } else {
                            "fallback-not-run"
                        }
                    }
                    Role::FallbackReturned => "fallback-returned-data-mismatch",
                    Role::FallbackResult => "fallback-result-mismatch",
                };
                let extra = match (is_method_marker(spec, ob), &ex.role) {
                    (Some(j), Role::Marker | Role::FallbackMarker) => format!(" (that is the marker of method #{j} `{}`)", spec.methods[j].name),
                    _ => String::new(),
                };
                return Err((kind.into(), format!("step {} ({}): {:?} entry: expected {} as {}, observed {} as {}{extra}", ex.step, step_desc(spec, st), ex.role, short_hex(&ex.entry.data), who(&ex.entry), short_hex(&ob.data), who(ob))));
            }
        }
    }
    if test.expect_revert {
        let st = test.steps.last().unwrap();
        if observed.len() > expected.len() {
            let ob = &observed[expected.len()];
            let kind = if is_method_marker(spec, ob).is_some() { "unknown-selector-executed-a-method" } else { "unknown-selector-did-not-revert" };
            return Err((kind.into(), format!("{} without a fallback: execution continued, next entry {} as {}", step_desc(spec, st), short_hex(&ob.data), who(ob))));
        }
        if !out.outcome.reverted() {
            return Err(("unknown-selector-did-not-revert".into(), format!("{} without a fallback: outcome {:?}", step_desc(spec, st), out.outcome)));
        }
        res.count("unknown_selector_reverted");
        if out.outcome == Outcome::Revert(123) {
            res.count("unknown_selector_revert_code_123");
        }
    } else {
        if observed.len() > expected.len() {
            let ob = &observed[expected.len()];
            return Err(("extra-receipt".into(), format!("{} unexpected entries after the last step, first {} as {}", observed.len() - expected.len(), short_hex(&ob.data), who(ob))));
        }
        if out.outcome.reverted() || !out.passed {
            return Err(("unexpected-revert".into(), format!("all entries present but the test ended with {:?}", out.outcome)));
        }
    }
    Ok(())
}

// ------------------------------------------------------------------------------------------
// evidence about the name set

fn note_classes(spec: &Spec, res: &mut ShardResult) {
    let names: Vec<&str> = spec.methods.iter().map(|m| m.selector()).collect();
    let n = names.len();
    res.count(&format!("family.{}", spec.family));
    if n == 1 {
        res.count("class.single_method");
    }
    if n == 12 {
        res.count("class.twelve_methods");
    }
    res.max("max_methods", n as u64);
    let mut prefix = false;
    let mut eqlen = false;
    let mut substr = false;
    for i in 0..n {
        for j in 0..n {
            if i == j {
                continue;
            }
            if names[j].starts_with(names[i]) {
                prefix = true;
            }
            if names[i].len() == names[j].len() {
                eqlen = true;
            }
            if names[j].contains(names[i]) {
                substr = true;
            }
        }
    }
    // a name that already occurs inside the concatenation of the names declared before it
    let mut table = String::new();
    let mut in_table = false;
    let mut across = false;
    for (i, nm) in names.iter().enumerate() {
        if let Some(off) = table.find(nm) {
            in_table = true;
            // does the occurrence straddle two earlier names?
            let mut pos = 0;
            let mut inside_one = false;
            for prev in &names[..i] {
                if !table[pos..].starts_with(prev) {
                    continue;
                }
                if off >= pos && off + nm.len() <= pos + prev.len() {
                    inside_one = true;
                }
                pos += prev.len();
            }
            if !inside_one {
                across = true;
            }
        } else {
            table.push_str(nm);
        }
    }
    if prefix {
        res.count("class.prefix_of_another");
    }
    if eqlen {
        res.count("class.equal_length");
    }
    if substr {
        res.count("class.substring_of_another");
    }
    if in_table {
        res.count("class.found_in_name_table");
    }
    if across {
        res.count("class.straddles_table_entries");
    }
    if names.iter().any(|s| s.len() == 1) {
        res.count("class.single_character_name");
    }
    if names.iter().any(|s| s.len() > 32) {
        res.count("class.name_longer_than_32");
    }
    if names.iter().any(|s| s.len() > 64) {
        res.count("class.name_longer_than_64");
    }
    if spec.methods.iter().any(|m| m.name.starts_with("r#")) {
        res.count("class.raw_identifier");
    }
    if (0..n).any(|i| (0..n).any(|j| i != j && names[i].eq_ignore_ascii_case(names[j]))) {
        res.count("class.case_variants");
    }
    res.add("methods", n as u64);
    let mut cs = BTreeSet::new();
    for m in &spec.methods {
        res.count(&format!("arity.{}", m.args.len()));
        let mut a = BTreeSet::new();
        for t in &m.args {
            spec.types.ctors(t, &mut a);
        }
        for c in &a {
            cs.insert(format!("ctor.arg.{c}"));
        }
        let mut r = BTreeSet::new();
        match ret_ty(m) {
            Some(t) => spec.types.ctors(&t, &mut r),
            None => {
                r.insert("unit");
            }
        }
        for c in &r {
            cs.insert(format!("ctor.ret.{c}"));
        }
        res.count(match m.ret {
            Ret::Unit => "ret_kind.unit",
            Ret::Const(..) => "ret_kind.constant",
            Ret::Echo(_) => "ret_kind.echo_argument",
            Ret::Mix(_) => "ret_kind.tuple_of_arguments_and_index",
        });
    }
    for c in cs {
        res.count(&c);
    }
    match &spec.fallback {
        None => res.count("packages_without_fallback"),
        Some(None) => res.count("packages_with_unit_fallback"),
        Some(Some(_)) => res.count("packages_with_returning_fallback"),
    }
}

// ------------------------------------------------------------------------------------------
// running

struct CaseId {
    seed: u64,
    shard: u64,
    index: u64,
}

fn run_profile(spec: &Spec, src: &str, dir: &std::path::Path, profile: Profile, id: &CaseId, res: &mut ShardResult, only_test: Option<&str>) {
    let r = catch(AssertUnwindSafe(|| run_unit_tests(dir, profile, 1, None).map(|r| r.tests.iter().map(raw_of).collect::<Vec<RawTest>>())));
    let run = match r {
        Err((loc, msg)) => {
            res.count("compiler_panics");
            res.inconclusive(format!("forc test panicked at {loc}: {}", msg.chars().take(120).collect::<String>()));
            return;
        }
        Ok(Err(e)) => {
            res.count("packages_rejected");
            let n = res.counters.get("packages_rejected").copied().unwrap_or(0);
            let msg = if n <= 2 { diagnose_pkg(dir, profile).first().cloned().unwrap_or_else(|| format!("no diagnostics ({e})")) } else { "not diagnosed".to_string() };
            let b = bucket(&msg);
            res.count(&format!("rejected.{b}"));
            res.inconclusive(format!("generated package rejected ({}): {msg}", profile.name()));
            let keep = work_dir("C11").join("rejected");
            std::fs::create_dir_all(&keep).ok();
            let f = keep.join(format!("{}_{}.sw", profile.name(), b.replace([' ', '#'], "_")));
            if !f.exists() {
                let _ = std::fs::write(&f, format!("// {msg}\n// seed {} shard {} index {}\n{src}", id.seed, id.shard, id.index));
            }
            return;
        }
        Ok(Ok(run)) => run,
    };
    res.count("packages_executed");
    res.count(&format!("profile.{}", profile.name()));
    for (ti, test) in spec.tests.iter().enumerate() {
        let name = format!("t{ti}");
        if let Some(o) = only_test {
            if o != name {
                continue;
            }
        }
        let Some(out) = run.iter().find(|t| t.name == name) else {
            res.inconclusive(format!("test {name} was not run by forc test"));
            continue;
        };
        res.count("tests_run");
        match check_test(spec, test, out, res) {
            Ok(()) => {
                for (si, st) in test.steps.iter().enumerate() {
                    res.evaluations += 1;
                    let nontrivial = match st {
                        Step::Known { m, low_level, .. } => {
                            res.count(if *low_level { "calls_low_level_known_name" } else { "calls_abi_cast" });
                            res.add("arguments_compared", spec.methods[*m].args.len() as u64);
                            res.count("results_compared");
                            res.count("returned_data_compared");
                            !spec.methods[*m].args.is_empty() || !matches!(spec.methods[*m].ret, Ret::Unit)
                        }
                        Step::Unknown { name } => {
                            if spec.fallback.is_some() {
                                res.count("unknown_selector_with_fallback");
                                res.count("fallback_ran");
                            } else {
                                res.count("unknown_selector_without_fallback");
                            }
                            if name.is_empty() {
                                res.count("unknown_selector_empty_name");
                            }
                            true
                        }
                    };
                    if nontrivial {
                        res.note_nontrivial(hash64(format!("{src}|{}|{name}|{si}", profile.name()).as_bytes()));
                    }
                }
            }
            Err((kind, desc)) => {
                res.evaluations += 1;
                res.violation(
                    format!("{kind}:{:016x}", hash64(src.as_bytes())),
                    format!("[{} test {name}, {} methods, names {:?}] {desc}", profile.name(), spec.methods.len(), spec.methods.iter().map(|m| short_name(&m.name)).collect::<Vec<_>>()),
                    json!({"seed": id.seed, "shard": id.shard, "index": id.index, "profile": profile.name(), "test": name, "source": src}),
                );
            }
        }
    }
    if res.samples.is_empty() {
        res.sample(json!({"profile": profile.name(), "methods": spec.methods.iter().map(|m| m.name.clone()).collect::<Vec<_>>(), "fallback": spec.fallback.is_some(), "tests": spec.tests.len(), "source": src}));
    }
}

fn short_name(s: &str) -> String {
    if s.len() > 24 {
        format!("{}..({})", &s[..24], s.len())
    } else {
        s.to_string()
    }
}

fn shard(ctx: &ShardCtx) -> ShardResult {
    let mut res = ShardResult::default();
    if ctx.shard == 0 && ctx.first_index == 0 {
        // calibration of the oracle on synthetic honest / corrupted observations (milliseconds)
        let (code, classes) = selftest(false);
        res.add("oracle_selftest_corruption_classes_detected", classes as u64);
        if code != 0 {
            res.harness_fault = Some("the oracle self-test failed: run `swverif c11selftest`".into());
            return res;
        }
    }
    let mut i = ctx.first_index;
    while ctx.time_left() {
        let mut rng = ctx.rng(i);
        let spec = gen_spec(&mut rng, ctx.shard + 5 * i);
        let src = render(&spec);
        journal_current(ctx, &src);
        let dir = ctx.work().join(format!("pkg{i}"));
        let _ = std::fs::remove_dir_all(&dir);
        if let Err(e) = write_pkg(&dir, "gencontract", &src, true) {
            res.harness_fault = Some(format!("cannot write package: {e}"));
            return res;
        }
        note_classes(&spec, &mut res);
        res.count("packages_generated");
        let id = CaseId { seed: ctx.seed, shard: ctx.shard, index: i };
        // alternate the profile that goes first so that both are covered when time is short
        let order = if (i + ctx.shard / 2) % 2 == 0 { [Profile::Debug, Profile::Release] } else { [Profile::Release, Profile::Debug] };
        for (k, profile) in order.into_iter().enumerate() {
            if k == 1 && !ctx.time_left() {
                break;
            }
            ctx.begin_case(i, &format!("// {} seed {} shard {} index {i}\n{src}", profile.name(), ctx.seed, ctx.shard), &res);
            run_profile(&spec, &src, &dir, profile, &id, &mut res, None);
            ctx.end_case();
        }
        let _ = std::fs::remove_dir_all(&dir);
        i += 1;
        write_partial(ctx, &res);
    }
    res
}

fn replay(case: &Value) -> ShardResult {
    let mut res = ShardResult::default();
    let (Some(seed), Some(sh), Some(index)) = (case["seed"].as_u64(), case["shard"].as_u64(), case["index"].as_u64()) else {
        res.harness_fault = Some("replay case lacks seed/shard/index".into());
        return res;
    };
    let mut rng = rng_for(seed, sh, index);
    let spec = gen_spec(&mut rng, sh + 5 * index);
    let src = render(&spec);
    if case["source"].as_str() != Some(src.as_str()) {
        res.harness_fault = Some("the generator no longer reproduces the recorded package; run `swverif c11probe <file.sw>` on the recorded source".into());
        return res;
    }
    let dir = work_dir("C11").join("replay");
    clean_dir(&dir);
    if let Err(e) = write_pkg(&dir, "gencontract", &src, true) {
        res.harness_fault = Some(format!("cannot write package: {e}"));
        return res;
    }
    let profile = if case["profile"].as_str() == Some("release") { Profile::Release } else { Profile::Debug };
    let id = CaseId { seed, shard: sh, index };
    run_profile(&spec, &src, &dir, profile, &id, &mut res, case["test"].as_str());
    res
}


// ------------------------------------------------------------------------------------------
// oracle self-test on synthetic observations (no compiler involved)

fn synth_outcome(name: &str, entries: &[Obs], reverted: bool) -> RawTest {
    RawTest { name: name.to_string(), passed: !reverted, outcome: if reverted { Outcome::Revert(123) } else { Outcome::Return(0) }, obs: entries.to_vec(), contract_ids: 1 }
}

/// `swverif c11selftest`: feed the comparison with honest and corrupted receipts
fn selftest(verbose: bool) -> (i32, usize) {
    let mut failures = 0;
    let mut seen: BTreeSet<String> = BTreeSet::new();
    let mut honest_ok = 0;
    for v in 0..60u64 {
        let mut rng = rng_for(99, v, 0);
        let spec = gen_spec(&mut rng, v);
        for (ti, test) in spec.tests.iter().enumerate() {
            let name = format!("t{ti}");
            let exp = expected_of(&spec, test);
            let honest: Vec<Obs> = exp.iter().map(|e| e.entry.clone()).collect();
            let mut scratch = ShardResult::default();
            match check_test(&spec, test, &synth_outcome(&name, &honest, test.expect_revert), &mut scratch) {
                Ok(()) => honest_ok += 1,
                Err((k, d)) => {
                    eprintln!("FAIL honest receipts rejected: {k}: {d}");
                    failures += 1;
                }
            }
            let mut expect = |label: &str, entries: Vec<Obs>, reverted: bool, want: &[&str]| {
                let mut scratch = ShardResult::default();
                match check_test(&spec, test, &synth_outcome(&name, &entries, reverted), &mut scratch) {
                    Err((k, _)) if want.contains(&k.as_str()) => {
                        seen.insert(format!("{label} -> {k}"));
                    }
                    other => {
                        eprintln!("FAIL {label}: expected one of {want:?}, got {:?}", other.map_err(|e| e.0));
                        failures += 1;
                    }
                }
            };
            for (k, e) in exp.iter().enumerate() {
                match e.role {
                    Role::Marker => {
                        let Step::Known { m, .. } = &test.steps[e.step] else { continue };
                        if spec.methods.len() > 1 {
                            let other = (m + 1) % spec.methods.len();
                            let mut x = honest.clone();
                            x[k].data = (MARK_METHOD + other as u64).to_be_bytes().to_vec();
                            expect("another method's marker", x, test.expect_revert, &["wrong-method-executed"]);
                        }
                        let mut x = honest.clone();
                        x[k].data = MARK_FALLBACK.to_be_bytes().to_vec();
                        expect("fallback marker for a known name", x, test.expect_revert, &["known-name-reached-fallback"]);
                        let mut x = honest.clone();
                        x.truncate(k);
                        expect("receipts end before the call", x, true, &["unexpected-revert"]);
                    }
                    Role::Arg(i) => {
                        let mut x = honest.clone();
                        if x[k].data.is_empty() {
                            x[k].data.push(0);
                        } else {
                            let l = x[k].data.len() - 1;
                            x[k].data[l] ^= 1;
                        }
                        expect("argument with a flipped bit", x, test.expect_revert, &["argument-mismatch"]);
                        if i > 0 && honest[k].data != honest[k - 1].data {
                            let mut x = honest.clone();
                            x.swap(k, k - 1);
                            expect("two arguments swapped", x, test.expect_revert, &["argument-mismatch"]);
                        }
                    }
                    Role::Result => {
                        let mut x = honest.clone();
                        x[k].data.push(0);
                        expect("result with a trailing byte", x, test.expect_revert, &["result-mismatch"]);
                    }
                    Role::Returned => {
                        let mut x = honest.clone();
                        x[k].data.pop();
                        expect("returned data one byte short", x, test.expect_revert, &["returned-data-mismatch"]);
                        let mut x = honest.clone();
                        x.remove(k);
                        expect("return receipt missing", x, test.expect_revert, &["returned-data-mismatch"]);
                    }
                    Role::FallbackReturned => {
                        let mut x = honest.clone();
                        x[k].data.push(1);
                        expect("fallback returned data corrupted", x, false, &["fallback-returned-data-mismatch"]);
                    }
                    Role::FallbackMarker => {
                        let mut x = honest.clone();
                        x[k].data = MARK_METHOD.to_be_bytes().to_vec();
                        expect("method marker for an unknown selector", x, false, &["unknown-selector-executed-a-method"]);
                        let mut x = honest.clone();
                        x.remove(k);
                        expect("fallback marker missing", x, false, &["fallback-not-run"]);
                    }
                    Role::FallbackResult => {
                        let mut x = honest.clone();
                        x[k].data.push(7);
                        expect("fallback result corrupted", x, false, &["fallback-result-mismatch"]);
                    }
                }
            }
            if test.expect_revert {
                let mut x = honest.clone();
                x.push(Obs { callee: false, data: MARK_AFTER_REVERT.to_be_bytes().to_vec() });
                expect("unknown selector without fallback returns", x, false, &["unknown-selector-did-not-revert"]);
                let mut x = honest.clone();
                x.push(Obs { callee: true, data: MARK_METHOD.to_be_bytes().to_vec() });
                expect("unknown selector without fallback runs method 0", x, false, &["unknown-selector-executed-a-method"]);
                expect("unknown selector without fallback: no revert, no log", honest.clone(), false, &["unknown-selector-did-not-revert"]);
            }
        }
    }
    if verbose {
        for s in &seen {
            println!("ok   {s}");
        }
        println!("c11selftest: {honest_ok} honest tests accepted, {} corruption classes detected, {failures} failures", seen.len());
    }
    (if failures == 0 && honest_ok > 0 && seen.len() >= 10 { 0 } else { 1 }, seen.len())
}

/// `swverif c11probe <file.sw>`: build a contract package with forc test (both profiles), print slots, outcomes and logs
/// `swverif c11gen <seed> <shard> <index>`: print the generated package
fn subcommand(args: &[String]) -> Option<i32> {
    match args.first().map(|s| s.as_str()) {
        Some("c11selftest") => Some(selftest(true).0),
        Some("c11gen") => {
            let n: Vec<u64> = args[1..4].iter().map(|s| s.parse().expect("number")).collect();
            let mut rng = rng_for(n[0], n[1], n[2]);
            let spec = gen_spec(&mut rng, n[1] + 5 * n[2]);
            println!("{}", render(&spec));
            Some(0)
        }
        Some("c11probe") => {
            let src = std::fs::read_to_string(&args[1]).expect("read");
            let dir = work_dir("C11probe").join("pkg");
            clean_dir(&dir);
            write_pkg(&dir, "gencontract", &src, true).expect("write");
            for p in Profile::BOTH {
                let t0 = std::time::Instant::now();
                match run_unit_tests(&dir, p, 1, None) {
                    Err(e) => {
                        println!("{}: build failed: {e}", p.name());
                        for d in diagnose_pkg(&dir, p) {
                            println!("    {d}");
                        }
                        break;
                    }
                    Ok(run) => {
                        println!("{}: built+ran in {:.1}s; slots:", p.name(), t0.elapsed().as_secs_f64());
                        for s in &run.built.storage_slots {
                            println!("   {} = {}", hex::encode(s.key().as_ref()), hex::encode(s.value().as_ref()));
                        }
                        for t in &run.tests {
                            println!("  test {} passed={} outcome={:?} gas={}", t.name, t.passed, t.outcome, t.gas_used);
                            for (id, rb, d) in &t.logs {
                                println!("     {} rb={} {}", &id[..8], rb, hex::encode(d));
                            }
                        }
                    }
                }
            }
            Some(0)
        }
        _ => None,
    }
}
