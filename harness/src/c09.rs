//! C09: ABI encoding is canonical and round-trips.
//!
//! Generated type trees (depth <= 4) with boundary-biased values are printed into Sway scripts;
//! the scripts are compiled (debug and release) and run in the FuelVM. Every observed
//! ReturnData / LogData payload is compared with two reference codecs: a canonical encoder
//! written from the ABI specification and fuels-core's ABIEncoder/ABIDecoder driven by the JSON
//! ABI the build emitted (function inputs, output and loggedTypes). Decoding is exercised through
//! script data (entry point `decode_script_data`), through `abi_decode::<T>(raw_slice)` on
//! canonical bytes, and through the in-VM round trip `abi_decode::<T>(encode(v)) == v`.
use crate::common::*;
use crate::engine::*;
use crate::{Plan, Prop};
use rand::Rng;
use serde_json::Value;

#[path = "c09_abi.rs"]
pub mod abi;
use abi::*;

pub static META: PropertyMeta = PropertyMeta {
    id: "C09",
    level: "exploration",
    rule: "one evaluation = one VM execution of a generated script (one type, one value, one mode in {literal return+log, echo of decoded script data, in-VM round trip, abi_decode of canonical bytes, whole-signature entry}) in one profile whose return data and log data were compared with both reference codecs; non-trivial = the type tree has depth >= 2; distinct = hash of (type tree, value)",
    assumptions: &[
        "fuel-vm 0.66 is the trusted execution substrate",
        "fuels-core 0.77 ABIEncoder/ABIDecoder and fuel-abi-types are the trusted SDK-side codec; a disagreement between it and the harness's own canonical encoder is reported as inconclusive, not as a violation",
        "text values are ASCII (fuels-core rejects non-ASCII str/str[N]); Vec/Bytes/str lengths <= 13, type depth <= 4",
    ],
    floor_evaluations: 2000,
    floor_nontrivial: 100,
    required_counters: &["programs_universe", "programs_mono", "returns_equal", "logs_compared", "decode_path_executions", "in_vm_eq_true", "bytes_compared", "runs_roundtrip", "entry_decode_trivial_path", "entry_decode_nontrivial_path"],
};

pub static PROP: Prop = Prop {
    meta: &META,
    plan: |t| Plan { nshards: 16, budget_s: t.pick(60.0, 960.0), mem_gib: 6 },
    shard,
    replay,
    extra: crate::no_extra,
    subcommand,
};

pub fn params_for(tier: Tier, rng: &mut rand::rngs::StdRng, c10: bool) -> GenParams {
    let mono = rng.gen_bool(0.45);
    if mono {
        GenParams { c10, mono, ntypes: *choose(rng, &[1usize, 1, 1, 2, 2, 3]), nvals: tier.pick(3, 5), ncorrupt: tier.pick(3, 6), nrandom: tier.pick(2, 4), force_words: false }
    } else {
        GenParams { c10, mono, ntypes: rng.gen_range(tier.pick(6, 8)..=tier.pick(10, 12)), nvals: tier.pick(3, 4), ncorrupt: tier.pick(3, 5), nrandom: tier.pick(2, 3), force_words: false }
    }
}

/// the case of (seed, shard, index)
pub fn spec_at(tier: Tier, seed: u64, shard: u64, index: u64, c10: bool) -> Spec {
    let mut rng = rng_for(seed, shard, index);
    let mut p = params_for(tier, &mut rng, c10);
    if index % 6 == 0 {
        // anchor cases: `main(T) -> T` over word-only material, so that the trivially
        // encodable / decodable entry paths are exercised in every shard
        p.mono = true;
        p.ntypes = 1;
        p.force_words = true;
    }
    gen_spec(&mut rng, &p)
}

pub fn shard_loop(ctx: &ShardCtx, c10: bool) -> ShardResult {
    let mut res = ShardResult::default();
    let mut am = Amortised::new(&ctx.work());
    if let Err(e) = am.warm() {
        res.harness_fault = Some(format!("std does not compile: {e}"));
        return res;
    }
    // the budget is spent on cases: the one-off std compilation (about 6 s on an idle machine, far
    // more on a loaded one) is accounted with a fixed allowance instead of its wall time
    let clock = std::time::Instant::now();
    let case_budget = ctx.budget.saturating_sub(std::time::Duration::from_secs(if ctx.first_index == 0 { 6 } else { 6 + ctx.start.elapsed().as_secs().min(6) }));
    let mut i = ctx.first_index;
    while clock.elapsed() < case_budget {
        let spec = spec_at(ctx.tier, ctx.seed, ctx.shard, i, c10);
        let src = print_program(&spec);
        journal_current(ctx, &src);
        check_spec(&mut am, &spec, &mut res, Some((ctx, i)));
        i += 1;
    }
    res
}

fn shard(ctx: &ShardCtx) -> ShardResult {
    shard_loop(ctx, false)
}

pub fn replay_spec(case: &Value, prop: &str) -> ShardResult {
    let mut res = ShardResult::default();
    let Some(spec) = case.get("spec").and_then(|s| serde_json::from_value::<Spec>(s.clone()).ok()) else {
        res.harness_fault = Some("replay file has no program specification".into());
        return res;
    };
    let work = work_dir(prop).join("replay");
    clean_dir(&work);
    let mut am = Amortised::new(&work);
    check_spec(&mut am, &spec, &mut res, None);
    res
}

fn replay(case: &Value) -> ShardResult {
    replay_spec(case, "C09")
}

/// `swverif abiprobe <file.sw> [hex script data]...`: like `probe`, in a private directory, and
/// prints the JSON ABI types of main and of the logged types.
/// `swverif abigen <c09|c10> <seed> <shard> <index>`: print the generated program of a case.
fn subcommand(args: &[String]) -> Option<i32> {
    match args.first().map(|s| s.as_str()) {
        Some("abigen") => {
            let c10 = args[1] == "c10";
            let n: Vec<u64> = args[2..5].iter().map(|s| s.parse().expect("number")).collect();
            let tier = if args.get(5).map(|s| s.as_str()) == Some("thorough") { Tier::Thorough } else { Tier::Quick };
            let spec = spec_at(tier, n[0], n[1], n[2], c10);
            println!("{}", print_program(&spec));
            Some(0)
        }
        Some("abireduce") => {
            // abireduce <c09|c10> <seed> <shard> <index> <quick|thorough> <reject|violation> <fragment>
            let c10 = args[1] == "c10";
            let n: Vec<u64> = args[2..5].iter().map(|s| s.parse().expect("number")).collect();
            let tier = if args[5] == "thorough" { Tier::Thorough } else { Tier::Quick };
            let kind = args[6].clone();
            let frag = args.get(7).cloned().unwrap_or_default();
            let spec = spec_at(tier, n[0], n[1], n[2], c10);
            let work = work_dir("C09").join(format!("reduce{}", std::process::id()));
            clean_dir(&work);
            let mut am = Amortised::new(&work);
            let mut interesting = |s: &Spec| -> bool {
                let mut res = ShardResult::default();
                check_spec(&mut am, s, &mut res, None);
                match kind.as_str() {
                    "reject" => res.inconclusive_notes.iter().any(|n| n.contains("rejected") && n.contains(&frag)),
                    _ => res.violations.iter().any(|v| v.signature.contains(&frag)),
                }
            };
            if !interesting(&spec) {
                println!("the original case does not show the behaviour");
                return Some(1);
            }
            let red = reduce_spec(spec, &mut interesting);
            let mut res = ShardResult::default();
            check_spec(&mut am, &red, &mut res, None);
            println!("{}", print_program(&red));
            for v in res.violations.iter().take(6) {
                println!("// {} :: {}", v.signature, v.description);
            }
            for n in res.inconclusive_notes.iter().take(3) {
                println!("// inconclusive: {n}");
            }
            println!("// spec: {}", serde_json::to_string(&red).unwrap());
            let _ = std::fs::remove_dir_all(&work);
            Some(0)
        }
        Some("abiprobe") => {
            let src = std::fs::read_to_string(&args[1]).expect("read source");
            let work = work_dir("C09").join(format!("probe{}", std::process::id()));
            clean_dir(&work);
            let mut am = Amortised::new(&work);
            for profile in Profile::BOTH {
                match am.compile("abicase", &src, profile) {
                    Err(e) => {
                        let dir = am.last_dir();
                        println!("{}: compile failed: {e}: {}", profile.name(), first_error(&mut am, &dir, profile));
                    }
                    Ok(c) => {
                        if profile == Profile::Debug {
                            match abi_view(&c.pkg.program_abi) {
                                Ok(a) => {
                                    println!("abi inputs: {:?}", a.inputs);
                                    println!("abi output: {:?}", a.output);
                                    let mut l: Vec<_> = a.logged.iter().collect();
                                    l.sort_by_key(|x| *x.0);
                                    for (id, t) in l {
                                        println!("abi log {id}: {t:?}");
                                    }
                                }
                                Err(e) => println!("abi unreadable: {e}"),
                            }
                        }
                        let datas: Vec<Vec<u8>> = if args.len() > 2 { args[2..].iter().map(|h| hex::decode(h).expect("hex")).collect() } else { vec![vec![]] };
                        for d in datas {
                            println!("{} {} -> {}", profile.name(), hex::encode(&d), run_script(&c.pkg.bytecode.bytes, &d).short());
                        }
                    }
                }
            }
            let _ = std::fs::remove_dir_all(&work);
            Some(0)
        }
        _ => None,
    }
}
