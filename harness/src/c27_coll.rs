//! C27 collections: history generators + reference models for std Vec<T>, Bytes and String.
//! The model of a Vec<T> / Bytes is a Rust Vec<E>; what the std docs declare as reverting
//! (index out of bounds in set/insert/remove/swap/split_at/splice) is generated only as the LAST
//! statement of a test that is expected to revert.
use super::{e_bool, e_opt, e_u64, e_u8, Sizes, TestCase, TB};
use rand::{rngs::StdRng, Rng};

pub trait Elem: Clone + PartialEq + std::fmt::Debug + 'static {
    /// Sway type
    const TY: &'static str;
    /// tag used in helper / op names
    const TAG: &'static str;
    fn gen(rng: &mut StdRng) -> Self;
    fn lit(&self) -> String;
    fn enc(&self) -> Vec<u8>;
}

fn gen_u64(rng: &mut StdRng) -> u64 {
    match rng.gen_range(0..10) {
        0 => 0,
        1 => 1,
        2 => u64::MAX,
        3 => u64::MAX - 1,
        4 => 1u64 << rng.gen_range(0..64),
        5 | 6 => rng.gen_range(0..1000),
        _ => rng.gen(),
    }
}

fn gen_u8(rng: &mut StdRng) -> u8 {
    match rng.gen_range(0..8) {
        0 => 0,
        1 => 1,
        2 => 255,
        3 => 127,
        4 => 128,
        _ => rng.gen(),
    }
}

impl Elem for u64 {
    const TY: &'static str = "u64";
    const TAG: &'static str = "u64";
    fn gen(rng: &mut StdRng) -> Self {
        gen_u64(rng)
    }
    fn lit(&self) -> String {
        format!("{self}u64")
    }
    fn enc(&self) -> Vec<u8> {
        e_u64(*self)
    }
}

impl Elem for u8 {
    const TY: &'static str = "u8";
    const TAG: &'static str = "u8";
    fn gen(rng: &mut StdRng) -> Self {
        gen_u8(rng)
    }
    fn lit(&self) -> String {
        format!("{self}u8")
    }
    fn enc(&self) -> Vec<u8> {
        e_u8(*self)
    }
}

/// `struct S { a: u64, b: u8, c: bool }` of the prelude (10 bytes encoded, padded in memory)
#[derive(Clone, PartialEq, Debug)]
pub struct S {
    a: u64,
    b: u8,
    c: bool,
}

impl Elem for S {
    const TY: &'static str = "S";
    const TAG: &'static str = "s";
    fn gen(rng: &mut StdRng) -> Self {
        S { a: gen_u64(rng), b: gen_u8(rng), c: rng.gen() }
    }
    fn lit(&self) -> String {
        format!("S {{ a: {}u64, b: {}u8, c: {} }}", self.a, self.b, self.c)
    }
    fn enc(&self) -> Vec<u8> {
        let mut o = e_u64(self.a);
        o.push(self.b);
        o.push(self.c as u8);
        o
    }
}

/// b256 elements (32-byte, reference type in the compiler)
#[derive(Clone, PartialEq, Debug)]
pub struct B32([u8; 32]);

impl Elem for B32 {
    const TY: &'static str = "b256";
    const TAG: &'static str = "b256";
    fn gen(rng: &mut StdRng) -> Self {
        let mut b = [0u8; 32];
        match rng.gen_range(0..6) {
            0 => {}
            1 => b = [0xff; 32],
            2 => b[31] = rng.gen(),
            3 => b[0] = rng.gen(),
            _ => rng.fill(&mut b),
        }
        B32(b)
    }
    fn lit(&self) -> String {
        format!("0x{}", hex::encode(self.0))
    }
    fn enc(&self) -> Vec<u8> {
        self.0.to_vec()
    }
}

fn valid_idx(rng: &mut StdRng, len: usize) -> usize {
    debug_assert!(len > 0);
    match rng.gen_range(0..5) {
        0 => 0,
        1 => len - 1,
        2 => len / 2,
        _ => rng.gen_range(0..len),
    }
}

/// an index >= len (+ extra when the bound itself is still valid, e.g. insert at len)
fn bad_idx(rng: &mut StdRng, len: usize, extra: u64) -> u64 {
    let base = len as u64 + extra;
    // mostly the first invalid index: that is where an off-by-one in a bounds check shows
    match rng.gen_range(0..20) {
        0..=12 => base,
        13 | 14 => base + 1,
        15..=17 => base + rng.gen_range(2..1000),
        _ => u64::MAX,
    }
}

fn dump_expect<E: Elem>(tb: &mut TB, call: String, m: &[E]) {
    tb.line(format!("{call};"));
    tb.expect(e_u64(m.len() as u64));
    for x in m {
        tb.expect(x.enc());
    }
}

/// Emit statements that build a fresh `Bytes` named `name` holding `data`.
fn build_bytes(tb: &mut TB, rng: &mut StdRng, name: &str, data: &[u8]) {
    if data.is_empty() && rng.gen_bool(0.5) {
        tb.line(format!("let mut {name} = Bytes::with_capacity({}u64);", rng.gen_range(0..5)));
    } else {
        tb.line(format!("let mut {name} = Bytes::new();"));
    }
    for b in data {
        tb.line(format!("{name}.push({b}u8);"));
    }
}

/// One history over a `Vec<E>` (bytes == false) or a `Bytes` (bytes == true, E must be u8).
pub fn gen_seq_test<E: Elem>(rng: &mut StdRng, bytes: bool, name: &str, want_revert: bool, sz: &Sizes) -> TestCase {
    let family: &'static str = if bytes { "bytes" } else { "vec" };
    let tag = if bytes { "bytes".to_string() } else { format!("vec_{}", E::TAG) };
    let ty = if bytes { "Bytes".to_string() } else { format!("Vec<{}>", E::TY) };
    let ctor = if bytes { "Bytes" } else { "Vec" };
    let dump = if bytes { "dump_bytes".to_string() } else { format!("dump_{}", E::TAG) };
    let mut tb = TB::new(family);
    let mut m: Vec<E> = vec![];
    let opn = |o: &str| format!("{tag}.{o}");
    let max_len = sz.max_len;

    if rng.gen_bool(0.5) {
        tb.op(&opn("new"), "");
        tb.line(format!("let mut v: {ty} = {ctor}::new();"));
        tb.log_at_least("v.capacity()", 0);
    } else {
        let n: u64 = *[0u64, 1, 2, 3, 4, 5, 8, 16].get(rng.gen_range(0..8)).unwrap();
        tb.op(&opn("with_capacity"), "");
        tb.line(format!("let mut v: {ty} = {ctor}::with_capacity({n}u64);"));
        tb.log_at_least("v.capacity()", n);
        tb.log("v.len()", e_u64(0));
    }

    let nops = rng.gen_range(4..=sz.max_ops.max(5));
    let prefix = if want_revert { rng.gen_range(1..=nops.min(10)) } else { nops };
    for _ in 0..prefix {
        let len = m.len();
        // a short vector is mostly grown
        let pick = if len < 2 && rng.gen_bool(0.6) { 0 } else { rng.gen_range(0..if bytes { 130 } else { 100 }) };
        match pick {
            0..=21 => {
                if len < max_len {
                    let x = E::gen(rng);
                    tb.op(&opn("push"), "");
                    tb.mutation(format!("v.push({});", x.lit()));
                    m.push(x);
                    tb.log("v.len()", e_u64(m.len() as u64));
                } else {
                    tb.op(&opn("pop"), "");
                    tb.muts += 1;
                    let r = m.pop();
                    tb.log("v.pop()", e_opt(r.map(|x| x.enc())));
                }
            }
            22..=28 => {
                tb.op(&opn("pop"), "");
                tb.muts += 1;
                let r = m.pop();
                tb.log("v.pop()", e_opt(r.map(|x| x.enc())));
            }
            29..=40 => {
                tb.op(&opn("get"), "");
                if len > 0 && rng.gen_bool(0.7) {
                    let i = valid_idx(rng, len);
                    tb.log(&format!("v.get({i}u64)"), e_opt(Some(m[i].enc())));
                } else {
                    let i = bad_idx(rng, len, 0);
                    tb.log(&format!("v.get({i}u64)"), e_opt(None));
                }
            }
            41..=46 => {
                if len > 0 {
                    let i = valid_idx(rng, len);
                    let x = E::gen(rng);
                    tb.op(&opn("set"), "");
                    tb.mutation(format!("v.set({i}u64, {});", x.lit()));
                    m[i] = x;
                    tb.log(&format!("v.get({i}u64)"), e_opt(Some(m[i].enc())));
                }
            }
            47..=55 => {
                if len < max_len {
                    let i = match rng.gen_range(0..4) {
                        0 => 0,
                        1 => len,
                        _ => rng.gen_range(0..=len),
                    };
                    let x = E::gen(rng);
                    tb.op(&opn("insert"), "");
                    tb.mutation(format!("v.insert({i}u64, {});", x.lit()));
                    m.insert(i, x);
                    tb.log("v.len()", e_u64(m.len() as u64));
                    tb.log(&format!("v.get({i}u64)"), e_opt(Some(m[i].enc())));
                }
            }
            56..=63 => {
                if len > 0 {
                    let i = valid_idx(rng, len);
                    tb.op(&opn("remove"), "");
                    tb.muts += 1;
                    let x = m.remove(i);
                    tb.log(&format!("v.remove({i}u64)"), x.enc());
                    tb.log("v.len()", e_u64(m.len() as u64));
                }
            }
            64..=68 => {
                if len > 0 {
                    let i = valid_idx(rng, len);
                    let j = if rng.gen_bool(0.15) { i } else { valid_idx(rng, len) };
                    tb.op(&opn("swap"), "");
                    tb.mutation(format!("v.swap({i}u64, {j}u64);"));
                    m.swap(i, j);
                    tb.log(&format!("v.get({i}u64)"), e_opt(Some(m[i].enc())));
                    tb.log(&format!("v.get({j}u64)"), e_opt(Some(m[j].enc())));
                }
            }
            69..=73 => {
                let n = match rng.gen_range(0..5) {
                    0 => 0,
                    1 => len,
                    2 => len + 1,
                    _ => rng.gen_range(0..=max_len),
                };
                let x = E::gen(rng);
                tb.op(&opn("resize"), "");
                tb.mutation(format!("v.resize({n}u64, {});", x.lit()));
                m.resize(n, x);
                tb.log("v.len()", e_u64(m.len() as u64));
                if n > 0 {
                    tb.log(&format!("v.get({}u64)", n - 1), e_opt(Some(m[n - 1].enc())));
                }
                tb.log_at_least("v.capacity()", m.len() as u64);
            }
            74..=76 => {
                // documented: clear has no effect on the allocated capacity
                let c = tb.tmp("c");
                tb.op(&opn("clear"), "");
                tb.line(format!("let {c} = v.capacity();"));
                tb.mutation("v.clear();");
                m.clear();
                tb.log(&format!("v.capacity() == {c}"), e_bool(true));
                tb.log("v.len()", e_u64(0));
                tb.log("v.is_empty()", e_bool(true));
            }
            77..=79 => {
                tb.op(&opn("len"), "");
                tb.log("v.len()", e_u64(len as u64));
            }
            80..=85 => {
                tb.op(&opn("capacity"), "");
                tb.log_at_least("v.capacity()", len as u64);
            }
            86..=87 => {
                tb.op(&opn("is_empty"), "");
                tb.log("v.is_empty()", e_bool(len == 0));
            }
            88..=90 => {
                if bytes {
                    tb.op(&opn("are_all_zero"), "");
                    let z = m.iter().all(|x| x.enc() == vec![0u8]);
                    tb.log("v.are_all_zero()", e_bool(z));
                } else {
                    tb.op(&opn("last"), "");
                    tb.log("v.last()", e_opt(m.last().map(|x| x.enc())));
                }
            }
            91..=93 => {
                tb.op(&opn("iter"), "");
                tb.line("for x in v.iter() { log(x); }");
                for x in &m {
                    tb.expect(x.enc());
                }
                tb.log("v.len()", e_u64(len as u64));
            }
            94..=96 => {
                // clone is an independent copy; eq compares contents
                let w = tb.tmp("w");
                tb.op(&opn("clone_eq"), "");
                tb.line(format!("let mut {w} = v.clone();"));
                tb.log(&format!("{w} == v"), e_bool(true));
                let mut mw = m.clone();
                match rng.gen_range(0..3) {
                    0 if !mw.is_empty() => {
                        let i = valid_idx(rng, mw.len());
                        let x = E::gen(rng);
                        tb.line(format!("{w}.set({i}u64, {});", x.lit()));
                        mw[i] = x;
                    }
                    1 if !mw.is_empty() => {
                        tb.line(format!("let _ = {w}.pop();"));
                        mw.pop();
                    }
                    _ => {
                        let x = E::gen(rng);
                        tb.line(format!("{w}.push({});", x.lit()));
                        mw.push(x);
                    }
                }
                tb.log(&format!("{w} == v"), e_bool(mw == m));
                tb.log(&format!("v == {w}"), e_bool(mw == m));
                tb.log(&format!("{w}.len()"), e_u64(mw.len() as u64));
            }
            97..=99 => {
                // copy through a raw slice
                let w = tb.tmp("w");
                tb.op(&opn("raw_slice_roundtrip"), "");
                tb.line(format!("let {w} = <{ty} as From<raw_slice>>::from(v.as_raw_slice());"));
                dump_expect(&mut tb, format!("{dump}({w})"), &m);
                tb.log(&format!("{w}.capacity() >= {w}.len()"), e_bool(true));
            }
            // ---- Bytes only ----
            100..=105 => {
                let mid = match rng.gen_range(0..4) {
                    0 => 0,
                    1 => len,
                    _ => rng.gen_range(0..=len),
                };
                let (l, r) = (tb.tmp("l"), tb.tmp("r"));
                tb.op(&opn("split_at"), "");
                tb.line(format!("let ({l}, {r}) = v.split_at({mid}u64);"));
                dump_expect(&mut tb, format!("dump_bytes({l})"), &m[..mid]);
                dump_expect(&mut tb, format!("dump_bytes({r})"), &m[mid..]);
                tb.log(&format!("{l}.capacity() >= {l}.len() && {r}.capacity() >= {r}.len()"), e_bool(true));
                tb.log("v.len()", e_u64(len as u64));
            }
            106..=111 => {
                let o = tb.tmp("o");
                tb.op(&opn("append"), "");
                if rng.gen_bool(0.15) && len * 2 <= max_len * 2 {
                    // documented: appending self to itself duplicates the Bytes
                    tb.mutation("v.append(v);");
                    let c = m.clone();
                    m.extend(c);
                    tb.log("v.len()", e_u64(m.len() as u64));
                } else {
                    let k = rng.gen_range(0..=5usize);
                    let data: Vec<u8> = (0..k).map(|_| gen_u8(rng)).collect();
                    build_bytes(&mut tb, rng, &o, &data);
                    tb.mutation(format!("v.append({o});"));
                    for b in &data {
                        m.push(from_u8::<E>(*b));
                    }
                    tb.log("v.len()", e_u64(m.len() as u64));
                    // documented: `other` is not cleared
                    tb.log(&format!("{o}.len()"), e_u64(k as u64));
                }
                tb.log_at_least("v.capacity()", m.len() as u64);
            }
            112..=117 => {
                let s = rng.gen_range(0..=len);
                let e = match rng.gen_range(0..3) {
                    0 => s,
                    1 => len,
                    _ => rng.gen_range(s..=len),
                };
                let k = rng.gen_range(0..=4usize);
                let data: Vec<u8> = (0..k).map(|_| gen_u8(rng)).collect();
                let (o, sp) = (tb.tmp("o"), tb.tmp("sp"));
                tb.op(&opn("splice"), "");
                build_bytes(&mut tb, rng, &o, &data);
                tb.mutation(format!("let {sp} = v.splice({s}u64, {e}u64, {o});"));
                let removed: Vec<E> = m[s..e].to_vec();
                let mut nm: Vec<E> = m[..s].to_vec();
                nm.extend(data.iter().map(|b| from_u8::<E>(*b)));
                nm.extend_from_slice(&m[e..]);
                m = nm;
                dump_expect(&mut tb, format!("dump_bytes({sp})"), &removed);
                tb.log("v.len()", e_u64(m.len() as u64));
                tb.log(&format!("{o}.len()"), e_u64(k as u64));
            }
            118..=122 => {
                // Bytes <-> Vec<u8>
                let (vv, bb) = (tb.tmp("vv"), tb.tmp("bb"));
                tb.op(&opn("vec_u8_roundtrip"), "");
                tb.line(format!("let {vv}: Vec<u8> = <Vec<u8> as From<Bytes>>::from(v);"));
                dump_expect(&mut tb, format!("dump_u8({vv})"), &m);
                tb.line(format!("let {bb} = <Bytes as From<Vec<u8>>>::from({vv});"));
                dump_expect(&mut tb, format!("dump_bytes({bb})"), &m);
                tb.log(&format!("{bb} == v"), e_bool(true));
            }
            123..=126 => {
                tb.op(&opn("b256_try_from"), "");
                if rng.gen_bool(0.4) {
                    let x = B32::gen(rng);
                    tb.mutation(format!("v = <Bytes as From<b256>>::from({});", x.lit()));
                    m = x.enc().into_iter().map(from_u8::<E>).collect();
                    tb.log("v.len()", e_u64(32));
                }
                let r = if m.len() == 32 { Some(m.iter().flat_map(|x| x.enc()).collect::<Vec<u8>>()) } else { None };
                tb.log("<b256 as TryFrom<Bytes>>::try_from(v)", e_opt(r));
            }
            _ => {
                // eq against an independently built Bytes
                let o = tb.tmp("o");
                tb.op(&opn("eq_fresh"), "");
                let mut data: Vec<u8> = m.iter().map(|x| x.enc()[0]).collect();
                match rng.gen_range(0..4) {
                    0 if !data.is_empty() => {
                        let i = rng.gen_range(0..data.len());
                        data[i] = data[i].wrapping_add(1);
                    }
                    1 => data.push(gen_u8(rng)),
                    2 if !data.is_empty() => {
                        data.pop();
                    }
                    _ => {}
                }
                if data.len() <= 12 {
                    build_bytes(&mut tb, rng, &o, &data);
                    let same = data == m.iter().map(|x| x.enc()[0]).collect::<Vec<u8>>();
                    tb.log(&format!("v == {o}"), e_bool(same));
                    tb.log(&format!("{o} == v"), e_bool(same));
                } else {
                    tb.log("v.len()", e_u64(len as u64));
                }
            }
        }
        tb.stat_max(&format!("max_len_{family}"), m.len() as u64);
    }

    if want_revert {
        let len = m.len();
        let choices = if bytes { 6 } else { 4 };
        match rng.gen_range(0..choices) {
            0 => {
                let i = bad_idx(rng, len, 0);
                let x = E::gen(rng);
                tb.op(&opn("set"), "out-of-bounds");
                tb.reverting(format!("v.set({i}u64, {});", x.lit()));
            }
            1 => {
                let i = bad_idx(rng, len, 1);
                let x = E::gen(rng);
                tb.op(&opn("insert"), "out-of-bounds");
                tb.reverting(format!("v.insert({i}u64, {});", x.lit()));
            }
            2 => {
                let i = bad_idx(rng, len, 0);
                tb.op(&opn("remove"), "out-of-bounds");
                tb.reverting(format!("log(v.remove({i}u64));"));
            }
            3 => {
                let bad = bad_idx(rng, len, 0);
                let other = if len > 0 && rng.gen_bool(0.7) { valid_idx(rng, len) as u64 } else { bad_idx(rng, len, 0) };
                let (i, j) = if rng.gen_bool(0.5) { (bad, other) } else { (other, bad) };
                tb.op(&opn("swap"), "out-of-bounds");
                tb.reverting(format!("v.swap({i}u64, {j}u64);"));
            }
            4 => {
                let mid = bad_idx(rng, len, 1);
                tb.op(&opn("split_at"), "out-of-bounds");
                tb.reverting(format!("let (l, r) = v.split_at({mid}u64); log(l.len()); log(r.len());"));
            }
            _ => {
                let o = tb.tmp("o");
                tb.op(&opn("splice"), "out-of-bounds");
                build_bytes(&mut tb, rng, &o, &[7u8]);
                let (s, e) = if len > 0 && rng.gen_bool(0.5) {
                    // start > end
                    let e = rng.gen_range(0..len) as u64;
                    (e + 1, e)
                } else {
                    // end > len
                    (rng.gen_range(0..=len) as u64, bad_idx(rng, len, 1))
                };
                tb.reverting(format!("let sp = v.splice({s}u64, {e}u64, {o}); log(sp.len());"));
            }
        }
    } else {
        tb.op(&opn("dump"), "");
        dump_expect(&mut tb, format!("{dump}(v)"), &m);
        tb.log_at_least("v.capacity()", m.len() as u64);
    }
    let nontrivial = tb.ops.len() >= 3 && tb.muts >= 1 && tb.obs >= 1;
    tb.finish(name, nontrivial)
}

/// E is u8 whenever this is called (Bytes histories); goes through the element generator's type.
fn from_u8<E: Elem>(b: u8) -> E {
    // Bytes histories are only instantiated with E = u8; the transmute-free way to build an E
    // from a byte is via Any.
    let any: Box<dyn std::any::Any> = Box::new(b);
    match any.downcast::<E>() {
        Ok(e) => *e,
        Err(_) => panic!("Bytes history instantiated with a non-u8 element type"),
    }
}

const ALPHABET: &[u8] = b"ABCDEFGHIJKLMNOPQRSTUVWXYZabcdefghijklmnopqrstuvwxyz0123456789 _-.:,;!?()[]{}<>+*/=#@%&|~^'`$";

fn gen_ascii(rng: &mut StdRng, min: usize, max: usize) -> Vec<u8> {
    let n = rng.gen_range(min..=max);
    (0..n).map(|_| ALPHABET[rng.gen_range(0..ALPHABET.len())]).collect()
}

fn str_lit(data: &[u8]) -> String {
    format!("\"{}\"", String::from_utf8_lossy(data))
}

/// One history over a std String: construction from several sources (copy semantics of
/// from_ascii / as_bytes are documented), observers, clear.
pub fn gen_string_test(rng: &mut StdRng, name: &str, sz: &Sizes) -> TestCase {
    let mut tb = TB::new("string");
    let opn = |o: &str| format!("string.{o}");
    let mut m: Vec<u8>;
    let ctor_kind = match rng.gen_range(0..100) {
        0..=11 => 0,
        12..=39 => 1,
        40..=54 => 2,
        55..=62 => 3,
        63..=70 => 4,
        71..=78 => 5,
        79..=90 => 6,
        _ => 7,
    };
    match ctor_kind {
        0 => {
            m = gen_ascii(rng, 0, 12);
            tb.op(&opn("from_ascii_str"), "");
            tb.line(format!("let mut s = String::from_ascii_str({});", str_lit(&m)));
        }
        1 => {
            // documented: the content of `bytes` gets copied
            m = gen_ascii(rng, 0, 10);
            tb.op(&opn("from_ascii"), "");
            build_bytes(&mut tb, rng, "src", &m);
            tb.line("let mut s = String::from_ascii(src);");
            // mutate the source in place (no reallocation) and by growing it
            if !m.is_empty() {
                let i = rng.gen_range(0..m.len());
                tb.mutation(format!("src.set({i}u64, {}u8);", m[i].wrapping_add(1)));
            }
            let x = gen_u8(rng);
            tb.mutation(format!("src.push({x}u8);"));
            tb.log("src.len()", e_u64(m.len() as u64 + 1));
        }
        2 => {
            m = gen_ascii(rng, 0, 10);
            tb.op(&opn("from_bytes"), "");
            build_bytes(&mut tb, rng, "src", &m);
            tb.line("let mut s = <String as From<Bytes>>::from(src);");
            if !m.is_empty() {
                let i = rng.gen_range(0..m.len());
                tb.mutation(format!("src.set({i}u64, {}u8);", m[i].wrapping_add(1)));
            }
            tb.mutation("src.clear();");
            tb.log("src.len()", e_u64(0));
        }
        3 => {
            m = gen_ascii(rng, 0, 12);
            tb.op(&opn("from_str"), "");
            tb.line(format!("let mut s = <String as From<str>>::from({});", str_lit(&m)));
        }
        4 => {
            m = vec![];
            if rng.gen_bool(0.5) {
                tb.op(&opn("new"), "");
                tb.line("let mut s = String::new();");
            } else {
                let n = rng.gen_range(0..10u64);
                tb.op(&opn("with_capacity"), "");
                tb.line(format!("let mut s = String::with_capacity({n}u64);"));
                tb.log(&format!("s.capacity() >= {n}u64"), e_bool(true));
            }
        }
        5 => {
            m = gen_ascii(rng, 1, 12);
            tb.op(&opn("from_ascii_str_array"), "");
            tb.line(format!("let mut s = String::from_ascii_str_array(__to_str_array({}));", str_lit(&m)));
        }
        6 => {
            m = gen_ascii(rng, 0, 10);
            tb.op(&opn("from_raw_slice"), "");
            build_bytes(&mut tb, rng, "src", &m);
            tb.line("let mut s = <String as From<raw_slice>>::from(src.as_raw_slice());");
            if !m.is_empty() {
                let i = rng.gen_range(0..m.len());
                tb.mutation(format!("src.set({i}u64, {}u8);", m[i].wrapping_add(1)));
            }
            let x = gen_u8(rng);
            tb.mutation(format!("src.push({x}u8);"));
            tb.log("src.len()", e_u64(m.len() as u64 + 1));
        }
        _ => {
            m = gen_ascii(rng, 0, 12);
            tb.op(&opn("clone"), "");
            tb.line(format!("let mut s0 = String::from_ascii_str({});", str_lit(&m)));
            tb.line("let mut s = s0.clone();");
            tb.mutation("s0.clear();");
            tb.log("s0.len()", e_u64(0));
        }
    }
    tb.log("s.len()", e_u64(m.len() as u64));
    tb.stat_max("max_len_string", m.len() as u64);
    let nops = rng.gen_range(3..=sz.max_ops.min(12));
    for _ in 0..nops {
        match rng.gen_range(0..100) {
            0..=9 => {
                tb.op(&opn("len"), "");
                tb.log("s.len()", e_u64(m.len() as u64));
            }
            10..=17 => {
                tb.op(&opn("is_empty"), "");
                tb.log("s.is_empty()", e_bool(m.is_empty()));
            }
            18..=25 => {
                tb.op(&opn("capacity"), "");
                tb.log("s.capacity() >= s.len()", e_bool(true));
            }
            26..=40 => {
                // documented: as_bytes returns a copy
                let b = tb.tmp("b");
                tb.op(&opn("as_bytes"), "");
                tb.line(format!("let mut {b} = s.as_bytes();"));
                dump_expect(&mut tb, format!("dump_bytes({b})"), &m);
                let x = gen_u8(rng);
                tb.mutation(format!("{b}.push({x}u8);"));
                if !m.is_empty() {
                    tb.line(format!("{b}.set(0u64, {}u8);", m[0].wrapping_add(1)));
                }
                tb.log("s.len()", e_u64(m.len() as u64));
                if !m.is_empty() {
                    tb.log("s.as_bytes().get(0u64)", e_opt(Some(vec![m[0]])));
                }
            }
            41..=58 => {
                let o = tb.tmp("o");
                tb.op(&opn("eq"), "");
                let mut d = m.clone();
                match rng.gen_range(0..5) {
                    0 if !d.is_empty() => {
                        let i = rng.gen_range(0..d.len());
                        d[i] = if d[i] == b'a' { b'b' } else { b'a' };
                    }
                    1 => d.push(b'x'),
                    2 if !d.is_empty() => {
                        d.pop();
                    }
                    _ => {}
                }
                tb.line(format!("let {o} = String::from_ascii_str({});", str_lit(&d)));
                tb.log(&format!("s == {o}"), e_bool(d == m));
                tb.log(&format!("{o} == s"), e_bool(d == m));
                tb.log(&format!("s != {o}"), e_bool(d != m));
            }
            59..=66 => {
                tb.op(&opn("as_str"), "");
                let mut d = m.clone();
                if rng.gen_bool(0.4) {
                    d.push(b'!');
                }
                tb.log(&format!("s.as_str() == {}", str_lit(&d)), e_bool(d == m));
            }
            67..=72 => {
                let c = tb.tmp("c");
                tb.op(&opn("clone"), "");
                tb.line(format!("let mut {c} = s.clone();"));
                tb.log(&format!("{c} == s"), e_bool(true));
                tb.mutation(format!("{c}.clear();"));
                tb.log(&format!("{c} == s"), e_bool(m.is_empty()));
                tb.log("s.len()", e_u64(m.len() as u64));
            }
            73..=80 => {
                let b = tb.tmp("b");
                tb.op(&opn("into_bytes"), "");
                tb.line(format!("let {b}: Bytes = <Bytes as From<String>>::from(s);"));
                dump_expect(&mut tb, format!("dump_bytes({b})"), &m);
            }
            81..=87 => {
                let b = tb.tmp("b");
                tb.op(&opn("as_raw_slice"), "");
                tb.line(format!("let {b} = <Bytes as From<raw_slice>>::from(s.as_raw_slice());"));
                dump_expect(&mut tb, format!("dump_bytes({b})"), &m);
            }
            _ => {
                // documented: clear truncates to zero length and keeps the capacity
                let c = tb.tmp("c");
                tb.op(&opn("clear"), "");
                tb.line(format!("let {c} = s.capacity();"));
                tb.mutation("s.clear();");
                m.clear();
                tb.log("s.len()", e_u64(0));
                tb.log("s.is_empty()", e_bool(true));
                tb.log(&format!("s.capacity() == {c}"), e_bool(true));
            }
        }
    }
    tb.op(&opn("dump"), "");
    dump_expect(&mut tb, "dump_bytes(s.as_bytes())".to_string(), &m);
    let nontrivial = tb.ops.len() >= 3 && tb.muts >= 1 && tb.obs >= 1;
    tb.finish(name, nontrivial)
}

/// Sanity checks of the generators (deterministic, expectations well-formed).
pub fn selftest() -> i32 {
    use crate::common::rng_for;
    let sz = Sizes { coll_tests: 4, num_tests: 4, max_ops: 16, max_len: 24, max_items: 6 };
    let mut fails = 0;
    for k in 0..200u64 {
        let a = gen_seq_test::<u8>(&mut rng_for(1, 2, k), k % 2 == 0, "t", k % 5 == 0, &sz);
        let b = gen_seq_test::<u8>(&mut rng_for(1, 2, k), k % 2 == 0, "t", k % 5 == 0, &sz);
        if a.body != b.body {
            println!("selftest coll: generator is not deterministic");
            fails += 1;
        }
        if (k % 5 == 0) != a.revert_op.is_some() {
            println!("selftest coll: revert flag not honoured");
            fails += 1;
        }
        let s = gen_string_test(&mut rng_for(1, 3, k), "t", &sz);
        if s.revert_op.is_some() || s.expected.is_empty() {
            println!("selftest coll: string test malformed");
            fails += 1;
        }
    }
    fails
}
