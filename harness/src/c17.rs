//! C17: the compiler never crashes on any package.
//! Monitor: generated programs and token/line-level mutants of corpus programs are compiled
//! through the whole pipeline with the harness's own diagnostics handler; a panic (caught, with
//! call site) or an "internal compiler error" diagnostic is a violation.
use crate::common::*;
use crate::e2e;
use crate::engine::*;
use crate::swrun::*;
use crate::{Plan, Prop};
use rand::rngs::StdRng;
use rand::Rng;
use serde_json::{json, Value};
use std::panic::AssertUnwindSafe;
use std::time::Duration;

pub static META: PropertyMeta = PropertyMeta {
    id: "C17",
    level: "exploration",
    rule: "part A: a FIXED enumerated set of SwGen programs (base seed 0xC17, indices 0..6000; VERIF_SEED only rotates the order; quick covers a prefix per shard, thorough the whole set) - fixed because the unchanged compiler already has several internal-error classes on valid generated programs, each listed as a finding by message class / call site; part B (also a fixed enumerated set of 16 x 2500 mutants derived from a constant base seed; VERIF_SEED rotates the order): token- and line-level mutants (delete/duplicate/swap/replace tokens, swap types, rename/duplicate/delete declarations and statements, change literal suffixes) of single-file e2e programs; every case is compiled in debug and release through parsing, type checking, IR, asm and bytecode; an evaluation = one package; non-trivial = the package reached IR generation (no front-end error) or died inside the compiler; distinct = hash of the source text",
    assumptions: &[
        "a per-case watchdog expiry (possible non-termination) and an allocation failure under the 6 GiB address-space limit are recorded as inconclusive, never as violations",
        "un-suffixed numeric literals heading long operator chains (a known exponential type-checking case) are not manufactured by the mutators",
    ],
    floor_evaluations: 100,
    floor_nontrivial: 30,
    required_counters: &["reached_ir_or_beyond", "rejected_by_front_end", "mutants", "generated_programs"],
};

pub static PROP: Prop = Prop {
    meta: &META,
    plan: |t| Plan { nshards: 16, budget_s: t.pick(45.0, 1500.0), mem_gib: 6 },
    shard,
    replay,
    extra: crate::no_extra,
    subcommand,
};

/// A shard process that dies of a stack overflow while compiling a case IS a compiler crash
/// (forc compiles on its main thread with the same default 8 MiB stack). Anything else (kill,
/// allocation failure abort) stays inconclusive.
pub fn crash_policy(desc: &str, log_tail: &str) -> Option<(String, String, Value)> {
    if !log_tail.contains("has overflowed its stack") {
        return None;
    }
    let head = desc.lines().next().unwrap_or("");
    let what = head.trim_start_matches("// C17 ");
    // "mutant 123 of should_fail/x" -> class by seed program; "fixed generated program 17" -> by index
    let class = match what.split_once(" of ") {
        Some((_, name)) => format!("mutant-of:{name}"),
        None => what.replace(' ', "-"),
    };
    let src: String = desc.lines().skip(1).collect::<Vec<_>>().join("\n") + "\n";
    Some((format!("stack-overflow:{class}"), format!("[{what}] the compiler overflowed the 8 MiB main-thread stack (process abort)"), json!({"source": src, "crash": true, "class": class})))
}

/// `swverif c17-one <file>`: compile one source file in this process (used to replay crashes)
fn subcommand(args: &[String]) -> Option<i32> {
    if args.first().map(|s| s.as_str()) != Some("c17-one") {
        return None;
    }
    let src = std::fs::read_to_string(&args[1]).expect("source file");
    let work = work_dir("C17").join(format!("one{}", std::process::id()));
    clean_dir(&work);
    let mut am = Amortised::new(&work);
    let mut res = ShardResult::default();
    compile_case(&mut am, &src, "single case", json!({"source": src}), &mut res);
    for v in &res.violations {
        println!("violation: {} :: {}", v.signature, v.description);
    }
    let _ = std::fs::remove_dir_all(&work);
    Some(if res.violations.is_empty() { 0 } else { 1 })
}

const FIXED_SEED: u64 = 0xC17;
const FIXED_SET: u64 = 6000;
/// mutants per shard (x 16 shards) in the fixed enumerated mutant set
const MUT_PER_SHARD: u64 = 2500;

fn is_ice(e: &sway_error::error::CompileError) -> bool {
    use sway_error::error::CompileError as E;
    matches!(e, E::Internal(..) | E::InternalOwned(..)) || format!("{e}").starts_with("Internal compiler error")
}

/// message class: letters kept, everything else collapsed
fn ice_signature(msg: &str) -> String {
    let m = msg.trim_start_matches("Internal compiler error: ");
    // drop quoted / numbered specifics after the first sentence part
    // digit runs are collapsed BEFORE cutting, so that names such as `f0_81` / `f12_103` do not
    // shift what the 60-character head contains
    let mut collapsed = String::new();
    for c in m.chars() {
        if c.is_ascii_digit() {
            if !collapsed.ends_with('0') {
                collapsed.push('0');
            }
        } else {
            collapsed.push(c);
        }
    }
    let head: String = collapsed.chars().take(60).collect();
    format!("ice:{}", bucket(&head).trim())
}

pub fn compile_case(am: &mut Amortised, src: &str, what: &str, replay: Value, res: &mut ShardResult) {
    res.evaluations += 1;
    let dir = am_write(am, src);
    let mut reached_ir = false;
    let mut died = false;
    for profile in Profile::BOTH {
        match catch(AssertUnwindSafe(|| am.diagnose_dir(&dir, profile))) {
            Err((loc, msg)) => {
                died = true;
                if msg.contains("memory allocation") {
                    res.inconclusive(format!("allocation failure while compiling ({what})"));
                    continue;
                }
                // the class is the call site + the head of the message (longer messages embed
                // addresses and source text)
                res.violation(panic_signature(&loc, &msg.lines().next().unwrap_or("").chars().take(70).collect::<String>()), format!("[{} {what}] compiler panicked at {loc}: {}", profile.name(), msg.chars().take(200).collect::<String>()), replay.clone());
            }
            Ok(Err(e)) => {
                res.count("harness_could_not_set_up_package");
                res.inconclusive(format!("package set-up failed: {e}"));
            }
            Ok(Ok((errors, produced))) => {
                if produced {
                    res.count("produced_bytecode");
                    reached_ir = true;
                }
                let mut front_end_error = false;
                for e in &errors {
                    if is_ice(e) {
                        died = true;
                        let msg = format!("{e}");
                        res.violation(ice_signature(&msg), format!("[{} {what}] {}", profile.name(), msg.chars().take(220).collect::<String>()), replay.clone());
                    } else {
                        front_end_error = true;
                        if res.counters.len() < 400 {
                            res.count(&format!("diag.{}", bucket(&format!("{e}").chars().take(40).collect::<String>())));
                        }
                    }
                }
                if front_end_error && !produced {
                    res.count("rejected_by_front_end");
                } else if !produced && errors.is_empty() {
                    res.count("no_artifact_no_diagnostic");
                    res.violation("no-artifact-no-diagnostic".to_string(), format!("[{} {what}] compilation produced neither artifacts nor diagnostics", profile.name()), replay.clone());
                } else {
                    reached_ir = true;
                }
            }
        }
    }
    if reached_ir {
        res.count("reached_ir_or_beyond");
    }
    if reached_ir || died {
        res.note_nontrivial(hash64(src.as_bytes()));
    }
    let _ = std::fs::remove_dir_all(&dir);
}

fn am_write(am: &mut Amortised, src: &str) -> std::path::PathBuf {
    am.write_unique(src)
}

// ------------------------------------------------------------------------------------------
// mutators

fn tokens(src: &str) -> Vec<(usize, usize)> {
    // (start, end) of identifier/number tokens and single punctuation characters; skips comments/strings roughly
    let b = src.as_bytes();
    let mut out = vec![];
    let mut i = 0;
    while i < b.len() {
        let c = b[i];
        if c.is_ascii_whitespace() {
            i += 1;
        } else if c == b'/' && i + 1 < b.len() && b[i + 1] == b'/' {
            while i < b.len() && b[i] != b'\n' {
                i += 1;
            }
        } else if c == b'"' {
            let s = i;
            i += 1;
            while i < b.len() && b[i] != b'"' {
                if b[i] == b'\\' {
                    i += 1;
                }
                i += 1;
            }
            i = (i + 1).min(b.len());
            out.push((s, i));
        } else if c.is_ascii_alphanumeric() || c == b'_' {
            let s = i;
            while i < b.len() && (b[i].is_ascii_alphanumeric() || b[i] == b'_') {
                i += 1;
            }
            out.push((s, i));
        } else if c < 128 {
            out.push((i, i + 1));
            i += 1;
        } else {
            // skip a multi-byte character as one token
            let s = i;
            i += 1;
            while i < b.len() && (b[i] & 0xC0) == 0x80 {
                i += 1;
            }
            out.push((s, i));
        }
    }
    out
}

const TYPE_WORDS: [&str; 12] = ["u8", "u16", "u32", "u64", "u256", "bool", "b256", "str", "raw_ptr", "Vec", "Option", "Self"];
const KEYWORDS: [&str; 14] = ["fn", "let", "mut", "struct", "enum", "impl", "trait", "match", "if", "else", "while", "return", "const", "pub"];

pub fn mutate(rng: &mut StdRng, src: &str, res: &mut ShardResult) -> String {
    let mut s = src.to_string();
    let n = rng.gen_range(1..=3);
    for _ in 0..n {
        let toks = tokens(&s);
        if toks.len() < 4 {
            break;
        }
        let k = rng.gen_range(0..toks.len());
        let (a, b) = toks[k];
        let op = rng.gen_range(0..11);
        let name = ["delete_token", "duplicate_token", "swap_tokens", "replace_ident_by_other", "swap_type", "delete_line", "duplicate_line", "swap_lines", "change_literal", "insert_keyword", "rename_decl"][op];
        res.count(&format!("mut.{name}"));
        match op {
            0 => s.replace_range(a..b, ""),
            1 => {
                let t = s[a..b].to_string();
                s.insert_str(b, &format!(" {t}"));
            }
            2 => {
                let k2 = rng.gen_range(0..toks.len());
                let (c, d) = toks[k2];
                if b <= c {
                    let t1 = s[a..b].to_string();
                    let t2 = s[c..d].to_string();
                    s.replace_range(c..d, &t1);
                    s.replace_range(a..b, &t2);
                }
            }
            3 => {
                // replace an identifier by another identifier of the file
                let idents: Vec<(usize, usize)> = toks.iter().copied().filter(|(x, y)| s.as_bytes()[*x].is_ascii_alphabetic() && !KEYWORDS.contains(&&s[*x..*y])).collect();
                if idents.len() >= 2 {
                    let (x, y) = idents[rng.gen_range(0..idents.len())];
                    let (p, q) = idents[rng.gen_range(0..idents.len())];
                    let t = s[p..q].to_string();
                    s.replace_range(x..y, &t);
                }
            }
            4 => {
                let tys: Vec<(usize, usize)> = toks.iter().copied().filter(|(x, y)| TYPE_WORDS.contains(&&s[*x..*y])).collect();
                if !tys.is_empty() {
                    let (x, y) = tys[rng.gen_range(0..tys.len())];
                    let t = TYPE_WORDS[rng.gen_range(0..TYPE_WORDS.len())];
                    s.replace_range(x..y, t);
                }
            }
            5 | 6 | 7 => {
                let mut lines: Vec<String> = s.lines().map(|l| l.to_string()).collect();
                if lines.len() >= 3 {
                    let i = rng.gen_range(0..lines.len());
                    match op {
                        5 => {
                            lines.remove(i);
                        }
                        6 => {
                            let l = lines[i].clone();
                            lines.insert(i, l);
                        }
                        _ => {
                            let j = rng.gen_range(0..lines.len());
                            lines.swap(i, j);
                        }
                    }
                    s = lines.join("\n");
                    s.push('\n');
                }
            }
            8 => {
                // change a numeric literal (keep a suffix so that no un-suffixed chain head is manufactured)
                let nums: Vec<(usize, usize)> = toks.iter().copied().filter(|(x, _)| s.as_bytes()[*x].is_ascii_digit()).collect();
                if !nums.is_empty() {
                    let (x, y) = nums[rng.gen_range(0..nums.len())];
                    let old = s[x..y].to_string();
                    let suffix_pos = old.find('u');
                    let new = match suffix_pos {
                        Some(p) => {
                            let suf = ["u8", "u16", "u32", "u64", "u256"][rng.gen_range(0..5)];
                            let digits = *crate::common::choose(rng, &["0", "1", "255", "256", "65535", "65536", "4294967296", "18446744073709551615"]);
                            let _ = p;
                            format!("{digits}{suf}")
                        }
                        None => old.clone(),
                    };
                    s.replace_range(x..y, &new);
                }
            }
            9 => {
                let kw = KEYWORDS[rng.gen_range(0..KEYWORDS.len())];
                s.insert_str(a, &format!("{kw} "));
            }
            _ => {
                // rename the name after fn/struct/enum/trait at one place only
                if let Some(pos) = toks.iter().position(|(x, y)| matches!(&s[*x..*y], "fn" | "struct" | "enum" | "trait" | "const")) {
                    if pos + 1 < toks.len() {
                        let (x, y) = toks[pos + 1];
                        s.replace_range(x..y, "renamed_decl");
                    }
                }
            }
        }
    }
    s
}

/// single-file e2e programs that depend on std (full or reduced): mutation seeds
fn seed_programs(root: &std::path::Path) -> Vec<(String, String)> {
    let mut out = vec![];
    for dirname in ["should_pass/language", "should_pass/stdlib", "should_fail"] {
        let base = root.join("test_programs").join(dirname);
        for entry in walkdir::WalkDir::new(&base).max_depth(3).into_iter().filter_map(|e| e.ok()) {
            if entry.file_name() != "Forc.toml" {
                continue;
            }
            let dir = entry.path().parent().unwrap();
            let src_dir = dir.join("src");
            let files: Vec<_> = std::fs::read_dir(&src_dir).map(|rd| rd.filter_map(|e| e.ok()).collect()).unwrap_or_default();
            if files.len() != 1 {
                continue;
            }
            let manifest = std::fs::read_to_string(entry.path()).unwrap_or_default();
            if !manifest.contains("std = ") || manifest.contains("contract-dependencies") || manifest.matches(" = {").count() > 1 {
                continue;
            }
            if let Ok(text) = std::fs::read_to_string(files[0].path()) {
                if text.len() < 6000 && (text.trim_start().starts_with("script;") || text.trim_start().starts_with("library;") || text.trim_start().starts_with("contract;") || text.trim_start().starts_with("predicate;")) {
                    out.push((dir.strip_prefix(root.join("test_programs")).unwrap().display().to_string(), text));
                }
            }
        }
    }
    out.sort();
    out
}

fn shard(ctx: &ShardCtx) -> ShardResult {
    let mut res = ShardResult::default();
    let mut am = Amortised::new(&ctx.work());
    if let Err(e) = am.warm() {
        res.harness_fault = Some(format!("std does not compile: {e}"));
        return res;
    }
    set_watchdog_limit(Duration::from_secs(std::env::var("SWVERIF_CASE_WATCHDOG_S").ok().and_then(|s| s.parse().ok()).unwrap_or(25)));
    let seeds = match e2e::prepare("C17") {
        Ok(root) => seed_programs(&root),
        Err(e) => {
            res.harness_fault = Some(format!("e2e corpus copy failed: {e}"));
            return res;
        }
    };
    res.max("max_mutation_seed_programs", seeds.len() as u64);
    let clock = ctx.clock();
    let per_shard = FIXED_SET / ctx.nshards;
    let rot = ctx.seed % per_shard.max(1);
    // case index i: even = fixed generated program, odd = mutant
    let mut i = ctx.first_index;
    while clock.left() {
        let k = i / 2;
        if k >= per_shard && k >= MUT_PER_SHARD {
            // the whole fixed set has been explored
            res.count("fixed_set_completed_by_shard");
            break;
        }
        if i % 2 == 0 {
            if k >= per_shard {
                i += 1;
                continue;
            }
            let j = ((k + rot) % per_shard) * ctx.nshards + ctx.shard;
            let mut scratch = ShardResult::default();
            let case = case_at(FIXED_SEED, 0, j, 1, &mut scratch);
            res.count("generated_programs");
            ctx.begin_case(i, &format!("// C17 fixed generated program {j}\n{}", case.src), &res);
            compile_case(&mut am, &case.src, &format!("fixed generated program {j}"), json!({"fixed_index": j, "source": case.src}), &mut res);
            ctx.end_case();
        } else if !seeds.is_empty() && k < MUT_PER_SHARD {
            // mutants are a fixed enumerated set as well (the unchanged compiler already fails on
            // some of them): mutant (shard, m) is a pure function of the constant base seed
            let m_idx = (k + ctx.seed % MUT_PER_SHARD) % MUT_PER_SHARD;
            let mut rng = rng_for(FIXED_SEED ^ 0x77, ctx.shard, m_idx);
            let (name, text) = &seeds[rng.gen_range(0..seeds.len())];
            let m = mutate(&mut rng, text, &mut res);
            res.count("mutants");
            ctx.begin_case(i, &format!("// C17 mutant {m_idx} of {name}\n{m}"), &res);
            compile_case(&mut am, &m, &format!("mutant of {name}"), json!({"source": m, "seed_program": name}), &mut res);
            ctx.end_case();
            if res.samples.len() < 2 {
                res.sample(json!({"mutant_of": name, "source_head": m.lines().take(15).collect::<Vec<_>>()}));
            }
        }
        i += 1;
    }
    res
}

fn replay(v: &Value) -> ShardResult {
    let mut res = ShardResult::default();
    let work = work_dir("C17").join(format!("replay{}", std::process::id()));
    clean_dir(&work);
    if v.get("crash").and_then(|x| x.as_bool()) == Some(true) {
        // a case that killed the process: replay it in a child process
        let f = work.join("crash_case.sw");
        let _ = std::fs::write(&f, v["source"].as_str().unwrap_or(""));
        res.evaluations += 1;
        match std::process::Command::new(std::env::current_exe().unwrap()).arg("c17-one").arg(&f).output() {
            Ok(o) => {
                let err = String::from_utf8_lossy(&o.stderr).to_string();
                if let Some((sig, d, r)) = crash_policy(&format!("// C17 replayed case\n{}", v["source"].as_str().unwrap_or("")), &err) {
                    let sig = v.get("class").and_then(|x| x.as_str()).map(|c| format!("stack-overflow:{c}")).unwrap_or(sig);
                    res.violation(sig, d, r);
                } else if !o.status.success() {
                    res.inconclusive(format!("child ended with {:?} without a stack overflow", o.status));
                }
            }
            Err(e) => res.harness_fault = Some(format!("cannot spawn child: {e}")),
        }
        return res;
    }
    let mut am = Amortised::new(&work);
    let src = if let Some(text) = v.get("source").and_then(|x| x.as_str()) {
        // the recorded text (the generator may have changed since the witness was recorded)
        text.to_string()
    } else if let Some(j) = v.get("fixed_index").and_then(|x| x.as_u64()) {
        let mut scratch = ShardResult::default();
        case_at(FIXED_SEED, 0, j, 1, &mut scratch).src
    } else {
        v["source"].as_str().unwrap_or("").to_string()
    };
    compile_case(&mut am, &src, "replayed case", v.clone(), &mut res);
    res
}
