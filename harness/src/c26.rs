//! C26: incremental (LSP) compilation agrees with a fresh compilation.
//! Monitor: one long-lived real ServerState receives an edit history (module caching and garbage
//! collection as configured by default, and a second one with garbage collection switched off);
//! after every edit a brand-new ServerState opens the same text; published diagnostics and the
//! document-symbol tree of both must be equal. Hook H4 events are used ONLY to know when the
//! worker has finished compiling the edit (never as the oracle).
use crate::common::*;
use crate::{Plan, Prop};
use lsp_types::{DidChangeTextDocumentParams, DidOpenTextDocumentParams, DocumentSymbolParams, DocumentSymbolResponse, TextDocumentContentChangeEvent, TextDocumentIdentifier, TextDocumentItem, Url, VersionedTextDocumentIdentifier};
use rand::rngs::StdRng;
use rand::Rng;
use serde_json::{json, Value};
use std::path::{Path, PathBuf};
use std::sync::{Arc, Mutex};
use std::time::{Duration, Instant};
use sway_lsp::handlers::{notification, request};
use sway_lsp::server_state::ServerState;
use sway_types::verif_hooks::{Action, Kind};

pub static META: PropertyMeta = PropertyMeta {
    id: "C26",
    level: "exploration",
    rule: "edit histories (8..14 full-text edits: insert / delete / replace / duplicate items, rename a function with or without its call sites, introduce and then fix type, name and syntax errors, edit the submodule then the root, revisit earlier texts) over a two-file std-less library package; after each edit: diagnostics (file, range, severity, message) and the flattened document-symbol tree (name, kind, range) of the incremental server vs a fresh server on the same text; an evaluation = one edit step; non-trivial = the step's diagnostics or symbols differ from the previous step's; distinct = hash of (previous text, new text)",
    assumptions: &["the fresh server's result is the reference", "steps for which a server does not settle within the watchdog are inconclusive"],
    floor_evaluations: 150,
    floor_nontrivial: 50,
    required_counters: &["steps_compared", "steps_with_diagnostics", "steps_text_revisited", "symbol_trees_compared"],
};

pub static PROP: Prop = Prop {
    meta: &META,
    plan: |t| Plan { nshards: 16, budget_s: t.pick(55.0, 1200.0), mem_gib: 6 },
    shard,
    replay,
    extra: crate::no_extra,
    subcommand: crate::no_subcommand,
};

/// The diagnostics of a module that was NOT modified by the edit (it is served from the module
/// cache) are missing from the incremental result; a fresh compilation reports them.
pub const CLASS_CACHED_MODULE_DIAGNOSTICS_DROPPED: &str = "diagnostics-of-unmodified-cached-module-dropped";
/// The program has errors; the incremental server additionally publishes warnings (and nothing
/// else differs) that a fresh compilation of the same text does not publish.
pub const CLASS_EXTRA_WARNINGS_WHILE_ERRORS: &str = "incremental-publishes-extra-warnings-while-errors-present";

// ------------------------------------------------------------------------------------------
// event recorder (synchronisation only)

static EVENTS: Mutex<Vec<(String, String)>> = Mutex::new(Vec::new());

fn recorder(_k: Kind, point: &'static str, detail: &str) -> Action {
    if point.starts_with("worker.") {
        let mut g = EVENTS.lock().unwrap();
        if g.len() > 100_000 {
            g.clear();
        }
        g.push((point.to_string(), detail.to_string()));
    }
    Action::Continue
}

/// wait until the worker has finished compiling `version` and is idle again
fn wait_compiled(version: i32, limit: Duration) -> bool {
    let t0 = Instant::now();
    let tag = format!("Some({version})");
    loop {
        {
            let g = EVENTS.lock().unwrap();
            if let Some(p) = g.iter().rposition(|(pt, d)| pt == "worker.compile_end" && d.starts_with(&tag)) {
                if g[p..].iter().any(|(pt, _)| pt == "worker.recv") {
                    return true;
                }
            }
        }
        if t0.elapsed() > limit {
            return false;
        }
        std::thread::sleep(Duration::from_millis(1));
    }
}

// ------------------------------------------------------------------------------------------
// documents

const ITEMS: [&str; 26] = [
    "pub fn add(a: u64, b: u64) -> u64 {\n    __add(a, b)\n}",
    "pub fn twice(a: u64) -> u64 {\n    add(a, a)\n}",
    "pub struct Point {\n    pub x: u64,\n    pub y: u64,\n}",
    "pub enum Shape {\n    Dot: (),\n    Line: u64,\n}",
    "pub const LIMIT: u64 = 10;",
    "pub fn area(p: Point) -> u64 {\n    __mul(p.x, p.y)\n}",
    "impl Point {\n    pub fn sum(self) -> u64 {\n        __add(self.x, self.y)\n    }\n}",
    "pub fn pick(s: Shape) -> u64 {\n    match s {\n        Shape::Dot => 0,\n        Shape::Line(n) => n,\n    }\n}",
    "pub trait Size {\n    fn size(self) -> u64;\n}",
    "impl Size for Point {\n    fn size(self) -> u64 {\n        2\n    }\n}",
    "fn unused_private() -> bool {\n    true\n}",
    "pub fn uses_sub() -> u64 {\n    sub::helper(3)\n}",
    // deliberate errors
    "pub fn type_error() -> u64 {\n    true\n}",
    "pub fn name_error() -> u64 {\n    __add(undefined_name, 1)\n}",
    "pub fn wrong_args() -> u64 {\n    add(1)\n}",
    "pub fn syntax_error( -> u64 {\n    1\n}",
    "pub fn missing_brace() -> u64 {\n    1\n",
    "pub fn bad_field(p: Point) -> u64 {\n    p.z\n}",
    "pub fn non_exhaustive(s: Shape) -> u64 {\n    match s {\n        Shape::Dot => 0,\n    }\n}",
    "pub fn shadow(a: u64) -> u64 {\n    let a = a;\n    let b = 5;\n    a\n}",
    "pub struct Point {\n    pub x: u64,\n}",
    "pub fn twice(a: bool) -> bool {\n    a\n}",
    "pub fn uses_limit() -> u64 {\n    __add(LIMIT, 1)\n}",
    "pub fn generic<T>(x: T) -> T {\n    x\n}",
    "pub fn calls_generic() -> u64 {\n    generic(7)\n}",
    "pub fn mutate() -> u64 {\n    let mut v = 1;\n    v = __add(v, 1);\n    v\n}",
];

const SUB_ITEMS: [&str; 6] = [
    "pub fn helper(a: u64) -> u64 {\n    __add(a, 1)\n}",
    "pub fn helper(a: u64) -> bool {\n    __eq(a, 1)\n}",
    "pub fn other() -> u64 {\n    2\n}",
    "pub struct SubS {\n    pub v: u64,\n}",
    "pub fn broken() -> u64 {\n    false\n}",
    "pub fn helper2(a: u64, b: u64) -> u64 {\n    __mul(a, b)\n}",
];

#[derive(Clone, Debug, PartialEq, serde::Serialize, serde::Deserialize)]
pub struct Doc {
    pub root: Vec<usize>,
    pub sub: Vec<usize>,
    /// rename applied to `add`: None, Some(true) = with call sites, Some(false) = declaration only
    pub rename: Option<bool>,
}

impl Doc {
    fn root_text(&self) -> String {
        let mut s = String::from("library;\n\nmod sub;\n\n");
        for i in &self.root {
            s.push_str(ITEMS[*i]);
            s.push_str("\n\n");
        }
        match self.rename {
            Some(true) => s.replace("add(", "plus("),
            Some(false) => s.replace("pub fn add(", "pub fn plus("),
            None => s,
        }
    }
    fn sub_text(&self) -> String {
        let mut s = String::from("library;\n\n");
        for i in &self.sub {
            s.push_str(SUB_ITEMS[*i]);
            s.push_str("\n\n");
        }
        s
    }
}

fn edit(rng: &mut StdRng, d: &Doc, history: &[Doc], res: &mut ShardResult) -> Doc {
    let mut n = d.clone();
    let k = rng.gen_range(0..100);
    let name = match k {
        0..=29 => {
            let pos = rng.gen_range(0..=n.root.len());
            n.root.insert(pos, rng.gen_range(0..ITEMS.len()));
            "insert_item"
        }
        30..=44 if !n.root.is_empty() => {
            let pos = rng.gen_range(0..n.root.len());
            n.root.remove(pos);
            "delete_item"
        }
        45..=59 if !n.root.is_empty() => {
            let pos = rng.gen_range(0..n.root.len());
            n.root[pos] = rng.gen_range(0..ITEMS.len());
            "replace_item"
        }
        60..=64 if !n.root.is_empty() => {
            let pos = rng.gen_range(0..n.root.len());
            let it = n.root[pos];
            n.root.insert(pos, it);
            "duplicate_item"
        }
        65..=72 => {
            n.rename = match n.rename {
                None => Some(rng.gen_bool(0.5)),
                Some(_) => None,
            };
            "rename_function"
        }
        73..=86 => {
            if n.sub.is_empty() || rng.gen_bool(0.5) {
                n.sub.push(rng.gen_range(0..SUB_ITEMS.len()));
            } else {
                let pos = rng.gen_range(0..n.sub.len());
                n.sub[pos] = rng.gen_range(0..SUB_ITEMS.len());
            }
            "edit_submodule"
        }
        87..=99 if history.len() >= 2 => {
            n = history[rng.gen_range(0..history.len() - 1)].clone();
            "revisit_earlier_text"
        }
        _ => {
            n.root.push(rng.gen_range(0..ITEMS.len()));
            "insert_item"
        }
    };
    res.count(&format!("edit.{name}"));
    n
}

// ------------------------------------------------------------------------------------------
// servers

struct Srv {
    rt: tokio::runtime::Runtime,
    state: ServerState,
    root_uri: Url,
    sub_uri: Url,
    version: i32,
}

fn write_project(dir: &Path, d: &Doc) -> (PathBuf, PathBuf) {
    let proj = dir.join("proj");
    let _ = std::fs::remove_dir_all(&proj);
    std::fs::create_dir_all(proj.join("src")).unwrap();
    std::fs::write(proj.join("Forc.toml"), "[project]\nauthors = [\"verif\"]\nentry = \"lib.sw\"\nlicense = \"Apache-2.0\"\nname = \"proj\"\nimplicit-std = false\n\n[dependencies]\n").unwrap();
    let root = proj.join("src").join("lib.sw");
    let sub = proj.join("src").join("sub.sw");
    std::fs::write(&root, d.root_text()).unwrap();
    std::fs::write(&sub, d.sub_text()).unwrap();
    (root, sub)
}

impl Srv {
    fn start(dir: &Path, d: &Doc, gc: bool) -> Result<Srv, String> {
        let (root, sub) = write_project(dir, d);
        let rt = tokio::runtime::Builder::new_current_thread().enable_all().build().map_err(|e| e.to_string())?;
        let state = ServerState::default();
        state.config.write().garbage_collection.gc_enabled = gc;
        let root_uri = Url::from_file_path(&root).unwrap();
        let sub_uri = Url::from_file_path(&sub).unwrap();
        for (uri, text) in [(&root_uri, d.root_text()), (&sub_uri, d.sub_text())] {
            let params = DidOpenTextDocumentParams { text_document: TextDocumentItem { uri: uri.clone(), language_id: "sway".into(), version: 1, text } };
            let r = rt.block_on(async { tokio::time::timeout(Duration::from_secs(20), notification::handle_did_open_text_document(&state, params)).await });
            match r {
                Err(_) => return Err("did_open did not return within 20 s".into()),
                Ok(Err(e)) => return Err(format!("did_open failed: {e}")),
                Ok(Ok(())) => {}
            }
        }
        Ok(Srv { rt, state, root_uri, sub_uri, version: 1 })
    }

    /// full-text change of whichever file differs; waits until the worker has compiled it
    fn apply(&mut self, prev: &Doc, next: &Doc) -> Result<(), String> {
        let mut changed = vec![];
        if prev.sub_text() != next.sub_text() {
            changed.push((self.sub_uri.clone(), next.sub_text()));
        }
        if prev.root_text() != next.root_text() || changed.is_empty() {
            changed.push((self.root_uri.clone(), next.root_text()));
        }
        for (uri, text) in changed {
            self.version += 1;
            let v = self.version;
            let ch = TextDocumentContentChangeEvent { range: None, range_length: None, text };
            let params = DidChangeTextDocumentParams { text_document: VersionedTextDocumentIdentifier { uri, version: v }, content_changes: vec![ch] };
            self.rt.block_on(notification::handle_did_change_text_document(&self.state, params)).map_err(|e| format!("did_change failed: {e}"))?;
            if !wait_compiled(v, Duration::from_secs(20)) {
                return Err("the worker did not finish compiling the edit within 20 s".into());
            }
        }
        Ok(())
    }

    fn observe(&self) -> Result<(Vec<String>, Vec<String>), String> {
        let mut diags = vec![];
        let mut syms = vec![];
        for (label, ws_uri) in [("lib.sw", &self.root_uri), ("sub.sw", &self.sub_uri)] {
            let (uri, session) = self.state.uri_and_session_from_workspace(ws_uri).map_err(|e| e.to_string())?;
            if let Some(d) = session.diagnostics.read().get(&PathBuf::from(uri.path())) {
                for (sev, list) in [("warning", &d.warnings), ("error", &d.errors)] {
                    for x in list {
                        diags.push(format!("{label} {sev} {}:{}-{}:{} {}", x.range.start.line, x.range.start.character, x.range.end.line, x.range.end.character, x.message));
                    }
                }
            }
            let params = DocumentSymbolParams { text_document: TextDocumentIdentifier { uri: ws_uri.clone() }, work_done_progress_params: Default::default(), partial_result_params: Default::default() };
            let r = self.rt.block_on(async { tokio::time::timeout(Duration::from_secs(20), request::handle_document_symbol(&self.state, params)).await });
            match r {
                Err(_) => return Err("document_symbol did not return within 20 s".into()),
                Ok(Ok(Some(DocumentSymbolResponse::Nested(v)))) => {
                    fn flat(prefix: &str, v: &[lsp_types::DocumentSymbol], out: &mut Vec<String>) {
                        for s in v {
                            out.push(format!("{prefix}{} {:?} {}:{}-{}:{}", s.name, s.kind, s.range.start.line, s.range.start.character, s.range.end.line, s.range.end.character));
                            if let Some(c) = &s.children {
                                flat(&format!("{prefix}{}/", s.name), c, out);
                            }
                        }
                    }
                    flat(&format!("{label}:"), &v, &mut syms);
                }
                Ok(Ok(_)) => syms.push(format!("{label}:<none>")),
                Ok(Err(e)) => return Err(format!("document_symbol failed: {e:?}")),
            }
        }
        diags.sort();
        syms.sort();
        Ok((diags, syms))
    }

    fn stop(self) {
        let _ = self.state.shutdown_server();
    }
}

fn run_history(dir: &Path, docs: &[Doc], gc: bool, res: &mut ShardResult) {
    let mut inc = match Srv::start(&dir.join("inc"), &docs[0], gc) {
        Ok(s) => s,
        Err(e) => {
            res.inconclusive(format!("incremental server did not start: {e}"));
            return;
        }
    };
    let mut prev_obs: Option<(Vec<String>, Vec<String>)> = None;
    for k in 1..docs.len() {
        res.evaluations += 1;
        if let Err(e) = inc.apply(&docs[k - 1], &docs[k]) {
            res.inconclusive(format!("incremental server: {e}"));
            break;
        }
        let a = match inc.observe() {
            Ok(x) => x,
            Err(e) => {
                res.inconclusive(format!("incremental server: {e}"));
                break;
            }
        };
        let fresh = match Srv::start(&dir.join("fresh"), &docs[k], gc) {
            Ok(s) => s,
            Err(e) => {
                res.inconclusive(format!("fresh server did not start: {e}"));
                continue;
            }
        };
        let b = fresh.observe();
        fresh.stop();
        let b = match b {
            Ok(x) => x,
            Err(e) => {
                res.inconclusive(format!("fresh server: {e}"));
                continue;
            }
        };
        res.count("steps_compared");
        res.count("symbol_trees_compared");
        if !b.0.is_empty() {
            res.count("steps_with_diagnostics");
        }
        if docs[..k].contains(&docs[k]) {
            res.count("steps_text_revisited");
        }
        if prev_obs.as_ref() != Some(&b) {
            res.note_nontrivial(hash64(format!("{}{}{}{}", docs[k - 1].root_text(), docs[k - 1].sub_text(), docs[k].root_text(), docs[k].sub_text()).as_bytes()));
        }
        prev_obs = Some(b.clone());
        let replay = json!({"docs": &docs[..=k], "gc": gc});
        if a.0 != b.0 {
            let only_inc: Vec<&String> = a.0.iter().filter(|x| !b.0.contains(x)).collect();
            let only_fresh: Vec<&String> = b.0.iter().filter(|x| !a.0.contains(x)).collect();
            // classify by mechanism; a difference explained by neither mechanism keeps a per-history signature
            let root_modified = docs[k - 1].root_text() != docs[k].root_text();
            let sub_modified = docs[k - 1].sub_text() != docs[k].sub_text();
            // the module compiled last in this step is the one whose change was sent last (the
            // submodule's change is sent before the root's); the other one is served from the cache
            let last_changed_is_root = root_modified || !sub_modified;
            let cached = |d: &String| (d.starts_with("lib.sw ") && !last_changed_is_root) || (d.starts_with("sub.sw ") && last_changed_is_root);
            let a_ok = only_fresh.iter().all(|d| cached(d));
            let b_ok = only_inc.is_empty() || (only_inc.iter().all(|d| d.contains(" warning ")) && b.0.iter().any(|d| d.contains(" error ")));
            let mut classes = vec![];
            if a_ok && b_ok {
                if !only_fresh.is_empty() {
                    classes.push(CLASS_CACHED_MODULE_DIAGNOSTICS_DROPPED);
                }
                if !only_inc.is_empty() {
                    classes.push(CLASS_EXTRA_WARNINGS_WHILE_ERRORS);
                }
            }
            match classes.is_empty() {
                false => {
                    for sig in classes {
                        res.count(&format!("class.{sig}"));
                        if res.counters.get(&format!("class.{sig}")).copied().unwrap_or(0) <= 3 {
                            res.violation(sig.to_string(), format!("after edit {k} (gc={gc}): only incremental {only_inc:?} / only fresh {only_fresh:?}"), replay.clone());
                        }
                    }
                    // a listed mechanism: keep exploring the rest of the history
                    continue;
                }
                true => {
                    res.violation(
                        format!("incremental-diagnostics-differ:{:016x}", hash64(format!("{:?}", &docs[..=k]).as_bytes())),
                        format!("after edit {k} (gc={gc}) the incremental server publishes diagnostics a fresh server does not: only incremental {only_inc:?} / only fresh {only_fresh:?}"),
                        replay.clone(),
                    );
                    break;
                }
            }
        }
        if a.1 != b.1 {
            let only_inc: Vec<&String> = a.1.iter().filter(|x| !b.1.contains(x)).collect();
            let only_fresh: Vec<&String> = b.1.iter().filter(|x| !a.1.contains(x)).collect();
            res.violation(
                format!("incremental-symbols-differ:{:016x}", hash64(format!("{:?}", &docs[..=k]).as_bytes())),
                format!("after edit {k} (gc={gc}) the document symbols differ: only incremental {only_inc:?} / only fresh {only_fresh:?}"),
                replay,
            );
            break;
        }
        if res.samples.len() < 2 && !b.0.is_empty() {
            res.sample(json!({"step": k, "gc": gc, "root_text": docs[k].root_text(), "diagnostics": b.0, "symbols": b.1.iter().take(12).collect::<Vec<_>>()}));
        }
    }
    inc.stop();
}

fn gen_history(rng: &mut StdRng, res: &mut ShardResult) -> Vec<Doc> {
    let mut docs = vec![Doc { root: vec![0, 1, 2, 3], sub: vec![0], rename: None }];
    let n = rng.gen_range(8..=14);
    for _ in 0..n {
        let d = edit(rng, docs.last().unwrap(), &docs, res);
        docs.push(d);
    }
    docs
}

fn setup_env(dir: &Path) {
    let home = dir.join("home");
    let tmp = dir.join("tmp");
    std::fs::create_dir_all(&home).ok();
    std::fs::create_dir_all(&tmp).ok();
    std::env::set_var("HOME", &home);
    std::env::set_var("TMPDIR", &tmp);
    sway_types::verif_hooks::install(Some(Arc::new(recorder)));
}

fn shard(ctx: &ShardCtx) -> ShardResult {
    let mut res = ShardResult::default();
    let dir = ctx.work();
    setup_env(&dir);
    let mut i = ctx.first_index;
    while ctx.time_left() {
        let mut rng = ctx.rng(i);
        let docs = gen_history(&mut rng, &mut res);
        let gc = i % 3 != 2;
        res.count(if gc { "histories_gc_on" } else { "histories_gc_off" });
        ctx.begin_case(i, &format!("{docs:?}"), &res);
        run_history(&dir, &docs, gc, &mut res);
        ctx.end_case();
        EVENTS.lock().unwrap().clear();
        // the temporary workspace clones of stopped servers accumulate under TMPDIR
        let _ = std::fs::remove_dir_all(dir.join("tmp"));
        std::fs::create_dir_all(dir.join("tmp")).ok();
        i += 1;
    }
    res
}

fn replay(v: &Value) -> ShardResult {
    let mut res = ShardResult::default();
    let dir = work_dir("C26").join("replay");
    clean_dir(&dir);
    setup_env(&dir);
    match serde_json::from_value::<Vec<Doc>>(v["docs"].clone()) {
        Ok(docs) if docs.len() >= 2 => run_history(&dir, &docs, v["gc"].as_bool().unwrap_or(true), &mut res),
        _ => res.harness_fault = Some("bad replay".into()),
    }
    res
}
