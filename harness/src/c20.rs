//! C20: Forc.lock round-trips the resolved package graph.
//!
//! Every case is a package graph described by a harness-side model (`MGraph`). The model is turned
//! into a real `forc_pkg::Graph` WITHOUT going through the `FromStr` implementations under test
//! (struct literals for git/path, serde for member/ipfs/registry), then pushed through the real
//! write path (`Lock::from_graph` + `toml::ser::to_string_pretty`, what forc does when it writes
//! `Forc.lock`), written to a file, and read back with the real `Lock::from_path` + `to_graph`.
//! Oracle: the graph read back has the same node multiset (name, source) and the same edge
//! multiset (from, to, dependency name, kind, salt) as the graph written.
//!
//! Two explored sets:
//!  * seed-driven random graphs from an input class on which the unchanged tree is clean;
//!  * a FIXED enumerated list of named edge-case graphs (`fixed_cases`) that forc accepts but whose
//!    round trip is doubtful; each failure there has its own signature `fixed:<name>:<kind>`.
use crate::common::*;
use crate::{Plan, Prop};
use forc_pkg::{source, DepKind, Edge, Graph, Lock, Pinned};
use rand::rngs::StdRng;
use rand::Rng;
use serde::{Deserialize, Serialize};
use serde_json::{json, Value};
use std::path::{Path, PathBuf};
use std::str::FromStr;

pub static META: PropertyMeta = PropertyMeta {
    id: "C20",
    level: "exploration",
    rule: "random resolved-graph models (1..12 packages, DAG, at most one edge per ordered pair, unique (name, source) pairs; sources member/path/git/ipfs/registry; validated package and dependency names; git refs valid for git and free of '#', '(' and ')'), plus a fixed list of named edge-case graphs; each graph is written with Lock::from_graph + toml::ser::to_string_pretty and read back with Lock::from_path + to_graph; non-trivial = at least 2 packages and 1 edge; distinct = hash of the model",
    assumptions: &[
        "petgraph's StableGraph container and the derived PartialEq of forc_pkg::source::Pinned are trusted",
        "serde Deserialize of the Pinned types (used to construct member/ipfs/registry sources) is independent of the FromStr code under test",
        "a resolved graph has at most one edge per ordered node pair (fetch_deps uses update_edge), is acyclic, and the registry source name equals the package name",
        "Reference::Rev is generated in its canonical form Rev(commit_hash): the lock format does not store the user's rev string",
    ],
    floor_evaluations: 2000,
    floor_nontrivial: 1000,
    required_counters: &[
        "roundtrip_ok",
        "src_member",
        "src_path",
        "src_git",
        "src_ipfs",
        "src_registry",
        "graphs_disambiguated",
        "edges_renamed",
        "edges_contract_salted",
        "edges_contract_zero_salt",
        "fixed_cases_run",
    ],
};

pub static PROP: Prop = Prop {
    meta: &META,
    plan: |t| Plan { nshards: t.pick(8, 16), budget_s: t.pick(15.0, 200.0), mem_gib: 4 },
    shard,
    replay,
    extra: crate::no_extra,
    subcommand: crate::no_subcommand,
};

// ------------------------------------------------------------------------------------------
// Model

#[derive(Clone, Debug, PartialEq, Eq, Serialize, Deserialize)]
pub enum MRef {
    Branch(String),
    Tag(String),
    /// canonical: Rev(commit_hash)
    Rev,
    Default,
}

#[derive(Clone, Debug, PartialEq, Eq, Serialize, Deserialize)]
pub enum MSrc {
    Member,
    Path { root: u64 },
    Git { url: String, reference: MRef, commit: String },
    Ipfs { cid: String },
    Reg { version: String, cid: String, namespace: Option<String> },
}

impl MSrc {
    pub fn kind(&self) -> &'static str {
        match self {
            MSrc::Member => "member",
            MSrc::Path { .. } => "path",
            MSrc::Git { .. } => "git",
            MSrc::Ipfs { .. } => "ipfs",
            MSrc::Reg { .. } => "registry",
        }
    }
}

#[derive(Clone, Debug, PartialEq, Eq, Serialize, Deserialize)]
pub struct MPkg {
    pub name: String,
    pub src: MSrc,
}

#[derive(Clone, Debug, PartialEq, Eq, Serialize, Deserialize)]
pub struct MEdge {
    pub from: usize,
    pub to: usize,
    pub name: String,
    /// None = library dependency; Some(hex of 32 bytes) = contract dependency with that salt
    pub salt: Option<String>,
}

#[derive(Clone, Debug, PartialEq, Eq, Serialize, Deserialize)]
pub struct MGraph {
    pub pkgs: Vec<MPkg>,
    pub edges: Vec<MEdge>,
}

// ------------------------------------------------------------------------------------------
// Model -> real forc types (not through the FromStr impls under test)

pub fn build_source(name: &str, s: &MSrc) -> Result<source::Pinned, String> {
    match s {
        MSrc::Member => serde_json::from_value(json!({"Member": null})).map_err(|e| format!("member: {e}")),
        MSrc::Path { root } => {
            let path_root: forc_pkg::PinnedId = serde_json::from_value(json!(root)).map_err(|e| format!("pinned id: {e}"))?;
            Ok(source::Pinned::Path(source::path::Pinned { path_root }))
        }
        MSrc::Git { url, reference, commit } => {
            let repo = source::git::Url::from_str(url).map_err(|e| format!("git url {url:?}: {e}"))?;
            let reference = match reference {
                MRef::Branch(b) => source::git::Reference::Branch(b.clone()),
                MRef::Tag(t) => source::git::Reference::Tag(t.clone()),
                MRef::Rev => source::git::Reference::Rev(commit.clone()),
                MRef::Default => source::git::Reference::DefaultBranch,
            };
            Ok(source::Pinned::Git(source::git::Pinned {
                source: source::git::Source { repo, reference },
                commit_hash: commit.clone(),
            }))
        }
        MSrc::Ipfs { cid } => serde_json::from_value(json!({"Ipfs": cid})).map_err(|e| format!("ipfs cid {cid:?}: {e}")),
        MSrc::Reg { version, cid, namespace } => {
            let ns = match namespace {
                None => json!("Flat"),
                Some(d) => json!({"Domain": d}),
            };
            serde_json::from_value(json!({"Registry": {"source": {"name": name, "version": version, "namespace": ns}, "cid": cid}}))
                .map_err(|e| format!("registry {name} {version} {cid}: {e}"))
        }
    }
}

fn salt_of(hex64: &str) -> Result<fuel_tx::Salt, String> {
    let mut b = [0u8; 32];
    hex::decode_to_slice(hex64, &mut b).map_err(|e| format!("salt {hex64:?}: {e}"))?;
    Ok(fuel_tx::Salt::new(b))
}

pub fn build_graph(m: &MGraph) -> Result<(Graph, Vec<source::Pinned>), String> {
    let mut graph = Graph::new();
    let mut ix = vec![];
    let mut sources = vec![];
    for p in &m.pkgs {
        let source = build_source(&p.name, &p.src)?;
        sources.push(source.clone());
        ix.push(graph.add_node(Pinned { name: p.name.clone(), source }));
    }
    for e in &m.edges {
        if e.from >= ix.len() || e.to >= ix.len() {
            return Err("edge endpoint out of range".into());
        }
        let kind = match &e.salt {
            None => DepKind::Library,
            Some(h) => DepKind::Contract { salt: salt_of(h)? },
        };
        graph.add_edge(ix[e.from], ix[e.to], Edge::new(e.name.clone(), kind));
    }
    Ok((graph, sources))
}

/// The text forc writes to Forc.lock for this graph (same calls as `BuildPlan::from_lock_and_manifests`
/// and `forc update`).
pub fn lock_text(graph: &Graph) -> Result<String, String> {
    let lock = Lock::from_graph(graph);
    toml::ser::to_string_pretty(&lock).map_err(|e| format!("failed to serialize lock file: {e}"))
}

// ------------------------------------------------------------------------------------------
// Generator

const NAME_POOL: &[&str] = &[
    "std", "core", "my_lib", "my-lib", "token_abi", "foo", "Foo", "fOO", "bar", "bar-baz_qux", "a-", "a_", "ab", "a1", "x--y", "x__y", "member", "root", "path", "git", "ipfs", "registry", "rev", "branch", "tag",
    "default-branch", "from-root", "from-root-0", "git-https", "registry-std", "v1", "lib-0-1-0", "Z9", "contract_a", "contract-b", "script_main", "predicate1", "sway_libs", "standards",
    "a_very_long_package_name_that_goes_on_and_on_and_on_0123456789_abcdefghij",
];

const DEP_NAME_POOL: &[&str] = &["a", "b", "_", "_x", "std2", "std-alt", "core_v2", "dep", "d-e-p", "X", "alias_1", "member", "path", "git", "the_dependency_alias_with_a_long_name_0123456789"];

const URL_POOL: &[&str] = &[
    "https://github.com/FuelLabs/sway",
    "https://github.com/FuelLabs/sway.git",
    "https://github.com/fuellabs/sway-libs",
    "https://github.com/FuelLabs/sway-standards/",
    "http://example.com/repo",
    "https://example.com:8443/group/sub/repo.git",
    "https://user@example.com/repo",
    "https://gitlab.example.org/a/b/c/d",
    "ssh://git@github.com/org/repo.git",
    "ssh://git@example.com:2222/org/repo",
    "git://example.org/repo.git",
    "https://example.com/~user/repo",
    "https://example.com/a-b_c.d/repo+x",
    "https://192.168.0.1/r.git",
    "https://[::1]/r.git",
    "file:///home/user/repos/lib",
    "https://EXAMPLE.com/Mixed/Case",
    "https://example.com/repo%20name",
];

const BRANCH_POOL: &[&str] = &[
    "master", "main", "develop", "release/v1.0", "feature/foo-bar", "user/fix_123", "v0.66.1", "a=b", "tag=v1", "branch=x", "rev", "default-branch", "a+b", "a!b", "a%b", "a,b", "a;b", "a&b", "a'b", "a\"b",
    "a@b", "a$b", "a|b", "a<b>", "a{b}", "日本語", "fix-é", "UPPER", "0", "-", "a.b.c", "deadbeef", "0123456789abcdef0123456789abcdef01234567", "refs/heads/x", "a/b/c/d/e",
];

const VERSION_POOL: &[&str] = &[
    "0.1.0", "1.0.0", "0.0.0", "0.66.1", "10.20.30", "1.2.3-alpha", "1.2.3-alpha.1", "1.0.0-rc.1+build.123", "1.0.0+20130313144700", "1.0.0-0.3.7", "1.0.0-x.7.z.92", "1.0.0-x-y-z.--", "1.0.0-beta+exp.sha.5114f85",
    "1.0.0+0.build.1-rc.10000aaa-kk-0.1", "2.0.0-rc.1", "999999999.999999999.999999999", "18446744073709551615.0.0",
];

const NAMESPACE_POOL: &[&str] = &["fuellabs", "com/fuel", "com.example", "my-org", "my_org", "a/b/c", "x", "ORG", "org.example/sub"];

fn hex_string(rng: &mut StdRng, n_bytes: usize) -> String {
    let mut b = vec![0u8; n_bytes];
    rng.fill(&mut b[..]);
    hex::encode(b)
}

pub fn gen_commit(rng: &mut StdRng) -> String {
    match rng.gen_range(0..10) {
        0 => "0000000000000000000000000000000000000000".to_string(),
        1 => "ffffffffffffffffffffffffffffffffffffffff".to_string(),
        _ => hex_string(rng, 20),
    }
}

/// Returns (cid string, is_v1)
pub fn gen_cid(rng: &mut StdRng, allow_v1: bool) -> (String, bool) {
    use cid::multihash::Multihash;
    let mut digest = [0u8; 64];
    rng.fill(&mut digest[..]);
    if !allow_v1 || rng.gen_bool(0.5) {
        let mh = Multihash::<64>::wrap(0x12, &digest[..32]).expect("mh");
        (cid::Cid::new_v0(mh).expect("cidv0").to_string(), false)
    } else {
        let (code, len) = *choose(rng, &[(0x12u64, 32usize), (0x13, 64), (0xb220, 32), (0x00, 8), (0x1b, 32), (0x12, 32)]);
        let mh = Multihash::<64>::wrap(code, &digest[..len]).expect("mh");
        let codec = *choose(rng, &[0x55u64, 0x70, 0x71, 0x0129]);
        let c = cid::Cid::new_v1(codec, mh);
        let s = match rng.gen_range(0..4) {
            // non-canonical multibase spellings of the same CID: forc parses them into the same Cid
            0 => c.to_string_of_base(cid::multibase::Base::Base58Btc).expect("b58"),
            1 => c.to_string_of_base(cid::multibase::Base::Base16Lower).expect("b16"),
            _ => c.to_string(),
        };
        (s, true)
    }
}

fn gen_salt(rng: &mut StdRng) -> String {
    match rng.gen_range(0..8) {
        0 => format!("{:064x}", 1),
        1 => "ff".repeat(32),
        2 => format!("{}{}", "00".repeat(31), "80"),
        3 => format!("80{}", "00".repeat(31)),
        _ => hex_string(rng, 32),
    }
}

fn valid_pkg_name(n: &str) -> bool {
    forc_util::validate_project_name(n).is_ok()
}

fn valid_dep_name(n: &str) -> bool {
    forc_util::validate_name(n, "dependency name").is_ok()
}

fn gen_ident(rng: &mut StdRng, first: &[u8], rest: &[u8], min: usize, max: usize) -> String {
    let len = rng.gen_range(min..=max);
    let mut s = String::new();
    s.push(*choose(rng, first) as char);
    while s.len() < len {
        s.push(*choose(rng, rest) as char);
    }
    s
}

fn gen_pkg_name(rng: &mut StdRng) -> String {
    for _ in 0..50 {
        let n = if rng.gen_bool(0.6) {
            choose(rng, NAME_POOL).to_string()
        } else {
            gen_ident(rng, b"abcxyzABZ", b"abcxyzABZ019-_", 2, 14)
        };
        if valid_pkg_name(&n) {
            return n;
        }
    }
    "fallback_pkg".to_string()
}

fn gen_dep_name(rng: &mut StdRng) -> String {
    for _ in 0..50 {
        let n = match rng.gen_range(0..10) {
            0..=3 => choose(rng, DEP_NAME_POOL).to_string(),
            4..=5 => choose(rng, NAME_POOL).to_string(),
            _ => gen_ident(rng, b"abcxyzABZ_", b"abcxyzABZ019-_", 1, 12),
        };
        if valid_dep_name(&n) {
            return n;
        }
    }
    "fallback_dep".to_string()
}

fn gen_ref_string(rng: &mut StdRng) -> String {
    if rng.gen_bool(0.7) {
        choose(rng, BRANCH_POOL).to_string()
    } else {
        // characters git's check-ref-format allows in a ref component, minus '#', '(' and ')' (fixed cases)
        let alphabet: Vec<char> = "abcXYZ019-_./=+!%,;&'@$|<>{}é日".chars().collect();
        let len = rng.gen_range(1..=16);
        let mut s = String::new();
        for _ in 0..len {
            s.push(*choose(rng, &alphabet));
        }
        // keep it a name git would accept: no leading '-', '.', '/', no "..", "//", "@{", trailing '.', '/', ".lock"
        let bad = s.starts_with(['-', '.', '/']) || s.ends_with(['.', '/']) || s.contains("..") || s.contains("//") || s.contains("@{") || s.contains("/.") || s.ends_with(".lock") || s == "@";
        if bad {
            "main".to_string()
        } else {
            s
        }
    }
}

pub fn gen_source(rng: &mut StdRng, kind: u32) -> MSrc {
    match kind {
        0 => MSrc::Member,
        1 => MSrc::Path {
            root: match rng.gen_range(0..8) {
                0 => 0,
                1 => u64::MAX,
                2 => rng.gen_range(0..256),
                _ => rng.gen(),
            },
        },
        2 => {
            let url = choose(rng, URL_POOL).to_string();
            let reference = match rng.gen_range(0..4) {
                0 => MRef::Branch(gen_ref_string(rng)),
                1 => MRef::Tag(gen_ref_string(rng)),
                2 => MRef::Rev,
                _ => MRef::Default,
            };
            MSrc::Git { url, reference, commit: gen_commit(rng) }
        }
        3 => MSrc::Ipfs { cid: gen_cid(rng, true).0 },
        _ => MSrc::Reg {
            version: choose(rng, VERSION_POOL).to_string(),
            // forc only re-reads registry CIDs of the v0 form; v1 is a fixed case
            cid: gen_cid(rng, false).0,
            namespace: if rng.gen_bool(0.5) { None } else { Some(choose(rng, NAMESPACE_POOL).to_string()) },
        },
    }
}

pub fn gen_graph(rng: &mut StdRng) -> MGraph {
    let n = match rng.gen_range(0..10) {
        0 => 1,
        1..=4 => rng.gen_range(2..=5),
        _ => rng.gen_range(4..=12),
    };
    // a small name pool forces same-named packages from different sources
    let pool_size = if rng.gen_bool(0.45) { rng.gen_range(1..=3) } else { n + 2 };
    let mut names: Vec<String> = vec![];
    while names.len() < pool_size {
        let nm = gen_pkg_name(rng);
        if !names.contains(&nm) {
            names.push(nm);
        }
    }
    // a small source pool as well: same source (e.g. same git commit), different names
    let shared_sources: Vec<MSrc> = (0..2).map(|_| { let k = rng.gen_range(1..5); gen_source(rng, k) }).collect();
    let mut pkgs: Vec<MPkg> = vec![];
    for i in 0..n {
        for attempt in 0..40 {
            let name = if attempt < 20 { choose(rng, &names).clone() } else { gen_pkg_name(rng) };
            let kind = if i == 0 { 0 } else { *choose(rng, &[0u32, 1, 1, 2, 2, 2, 3, 4, 4]) };
            let src = if kind != 0 && rng.gen_bool(0.15) { choose(rng, &shared_sources).clone() } else { gen_source(rng, kind) };
            // (name, source) pairs are unique in a resolved graph; member names are unique in a workspace
            let clash = pkgs.iter().any(|p| p.name == name && (p.src == src || (p.src == MSrc::Member && src == MSrc::Member)));
            if !clash {
                pkgs.push(MPkg { name, src });
                break;
            }
        }
    }
    let n = pkgs.len();
    // DAG: hidden rank
    let mut rank: Vec<usize> = (0..n).collect();
    for i in (1..n).rev() {
        let j = rng.gen_range(0..=i);
        rank.swap(i, j);
    }
    let p = rng.gen_range(0.1..0.7);
    let mut edges = vec![];
    for a in 0..n {
        for b in (a + 1)..n {
            if !rng.gen_bool(p) {
                continue;
            }
            let (from, to) = if rank[a] > rank[b] { (a, b) } else { (b, a) };
            let name = if rng.gen_bool(0.3) { gen_dep_name(rng) } else { pkgs[to].name.clone() };
            let salt = match rng.gen_range(0..10) {
                0..=5 => None,
                6 => Some("00".repeat(32)),
                _ => Some(gen_salt(rng)),
            };
            edges.push(MEdge { from, to, name, salt });
        }
    }
    MGraph { pkgs, edges }
}

// ------------------------------------------------------------------------------------------
// Fixed enumerated edge cases (independent of the seed)

fn two_node(dep: MPkg, edge_name: Option<&str>, salt: Option<String>) -> MGraph {
    let name = edge_name.map(|s| s.to_string()).unwrap_or_else(|| dep.name.clone());
    MGraph { pkgs: vec![MPkg { name: "root_pkg".into(), src: MSrc::Member }, dep], edges: vec![MEdge { from: 0, to: 1, name, salt }] }
}

const CID0: &str = "QmdMgjkXU1YtLBcQVd9YVmTdZkYAFDgDD3sTbNMNXfuPYD";
const COMMIT: &str = "0123456789abcdef0123456789abcdef01234567";

pub fn fixed_cases() -> Vec<(&'static str, MGraph)> {
    let git = |r: MRef| MSrc::Git { url: "https://github.com/FuelLabs/sway".into(), reference: r, commit: COMMIT.into() };
    let mut v = vec![];
    // the four dependency-line shapes of lock.rs' own unit tests, end to end
    v.push(("baseline-renamed-salted", two_node(MPkg { name: "std".into(), src: MSrc::Path { root: 7 } }, Some("std2"), Some(format!("{:064x}", 255)))));
    v.push(("baseline-plain", two_node(MPkg { name: "std".into(), src: git(MRef::Tag("v0.66.1".into())) }, None, None)));
    // a git branch / tag containing '#': allowed by git check-ref-format, accepted by forc
    v.push(("git-branch-with-hash", two_node(MPkg { name: "dep_lib".into(), src: git(MRef::Branch("fix#123".into())) }, None, None)));
    v.push(("git-tag-with-hash", two_node(MPkg { name: "dep_lib".into(), src: git(MRef::Tag("v1#rc".into())) }, None, None)));
    // a git ref containing parentheses (allowed by git) in a dependency line that needs the source for disambiguation
    v.push((
        "git-branch-with-parens-disambiguated",
        MGraph {
            pkgs: vec![
                MPkg { name: "root_pkg".into(), src: MSrc::Member },
                MPkg { name: "dep_lib".into(), src: git(MRef::Branch("fix(parser)".into())) },
                MPkg { name: "dep_lib".into(), src: git(MRef::Branch("main".into())) },
            ],
            edges: vec![MEdge { from: 0, to: 1, name: "dep_lib".into(), salt: None }, MEdge { from: 0, to: 2, name: "dep_main".into(), salt: None }],
        },
    ));
    // the same ref when no disambiguation is needed
    v.push(("git-branch-with-parens", two_node(MPkg { name: "dep_lib".into(), src: git(MRef::Branch("fix(parser)".into())) }, None, Some(format!("{:064x}", 9)))));
    // registry entry whose index carries a CIDv1 (reg::Source::pin accepts any CID)
    v.push((
        "registry-cid-v1",
        two_node(MPkg { name: "dep_lib".into(), src: MSrc::Reg { version: "1.0.0".into(), cid: "bafkreigh2akiscaildcqabsyg3dfr6chu3fgpregiymsck7e7aqa4s52zy".into(), namespace: None } }, None, None),
    ));
    // `namespace = ""` in the manifest
    v.push(("registry-empty-domain-namespace", two_node(MPkg { name: "dep_lib".into(), src: MSrc::Reg { version: "1.0.0".into(), cid: CID0.into(), namespace: Some(String::new()) } }, None, None)));
    // (two packages with the identical (name, source) pair are not a resolved graph: the pinned id
    // would collide; that shape is deliberately not explored)
    // same name from all five source kinds at once, every edge renamed and salted
    v.push((
        "five-kinds-one-name",
        MGraph {
            pkgs: vec![
                MPkg { name: "same".into(), src: MSrc::Member },
                MPkg { name: "same".into(), src: MSrc::Path { root: u64::MAX } },
                MPkg { name: "same".into(), src: git(MRef::Default) },
                MPkg { name: "same".into(), src: MSrc::Ipfs { cid: CID0.into() } },
                MPkg { name: "same".into(), src: MSrc::Reg { version: "1.2.3-rc.1+b.7".into(), cid: CID0.into(), namespace: Some("com/fuel".into()) } },
            ],
            edges: (1..5).map(|i| MEdge { from: 0, to: i, name: format!("alias{i}"), salt: Some(format!("{:064x}", i)) }).collect(),
        },
    ));
    v
}

// ------------------------------------------------------------------------------------------
// The check

pub struct Outcome {
    /// None = property held on this case
    pub failure: Option<(String, String)>, // (kind, description)
}

fn canon_edges(v: &mut Vec<(usize, usize, String, Option<String>)>) {
    v.sort();
}

/// A lock file under /verif/work/<Cxx>/ that is rewritten in place for every case (truncating
/// and re-creating a file costs ~0.4 ms on this file system, rewriting ~10 us).
pub struct Scratch {
    pub path: PathBuf,
    file: std::fs::File,
}

impl Scratch {
    pub fn new(dir: &Path) -> Result<Scratch, String> {
        std::fs::create_dir_all(dir).ok();
        let path = dir.join("Forc.lock");
        let file = std::fs::OpenOptions::new().read(true).write(true).create(true).truncate(true).open(&path).map_err(|e| format!("harness: cannot create {}: {e}", path.display()))?;
        Ok(Scratch { path, file })
    }
    pub fn put(&mut self, bytes: &[u8]) -> Result<(), String> {
        use std::os::unix::fs::FileExt;
        self.file.write_all_at(bytes, 0).and_then(|_| self.file.set_len(bytes.len() as u64)).map_err(|e| format!("harness: cannot write {}: {e}", self.path.display()))
    }
}

/// Write, read back, compare. `scratch` is the lock file that is written.
/// Err(..) = the model was rejected while constructing the input graph (not a verdict).
pub fn roundtrip(m: &MGraph, scratch: &mut Scratch) -> Result<Outcome, String> {
    let (graph, sources) = build_graph(m)?;
    let fail = |kind: &str, d: String| Ok(Outcome { failure: Some((kind.to_string(), d)) });
    let text = match catch(std::panic::AssertUnwindSafe(|| lock_text(&graph))) {
        Err((loc, msg)) => return fail("panic-writing", format!("Lock::from_graph/serialise panicked: {msg} at {loc}")),
        Ok(Err(e)) => return fail("serialise-error", e),
        Ok(Ok(t)) => t,
    };
    scratch.put(text.as_bytes())?;
    let path: &Path = &scratch.path;
    let back = catch(std::panic::AssertUnwindSafe(|| Lock::from_path(path).and_then(|l| l.to_graph())));
    let out = match back {
        Err((loc, msg)) => return fail("panic-reading", format!("reading the lock back panicked: {msg} at {loc}; lock text:\n{text}")),
        Ok(Err(e)) => return fail("read-error", format!("reading the lock back failed: {e}; lock text:\n{text}")),
        Ok(Ok(g)) => g,
    };
    // nodes
    let n = m.pkgs.len();
    if out.node_count() != n {
        return fail("node-count", format!("{} packages written, {} read back; lock text:\n{text}", n, out.node_count()));
    }
    let mut matched: Vec<Option<forc_pkg::NodeIx>> = vec![None; n];
    let mut back_ix = std::collections::HashMap::new();
    for nix in out.node_indices() {
        let p = &out[nix];
        let pos = (0..n).find(|&i| matched[i].is_none() && m.pkgs[i].name == p.name && sources[i] == p.source);
        match pos {
            Some(i) => {
                matched[i] = Some(nix);
                back_ix.insert(nix, i);
            }
            None => {
                return fail(
                    &format!("node-mismatch:{}", src_kind_of(&p.source)),
                    format!("package read back that was not written: name {:?} source {:?} (`{}`); lock text:\n{text}", p.name, p.source, p.source),
                )
            }
        }
    }
    // edges
    use petgraph::visit::{EdgeRef, IntoEdgeReferences};
    let mut expect: Vec<(usize, usize, String, Option<String>)> = m.edges.iter().map(|e| (e.from, e.to, e.name.clone(), e.salt.as_ref().map(|s| s.to_lowercase()))).collect();
    let mut got: Vec<(usize, usize, String, Option<String>)> = out
        .edge_references()
        .map(|e| {
            let w = e.weight();
            let salt = match &w.kind {
                DepKind::Library => None,
                DepKind::Contract { salt } => Some(hex::encode(salt.as_ref() as &[u8])),
            };
            (back_ix[&e.source()], back_ix[&e.target()], w.name.clone(), salt)
        })
        .collect();
    canon_edges(&mut expect);
    canon_edges(&mut got);
    if expect != got {
        let missing: Vec<_> = expect.iter().filter(|e| !got.contains(e)).take(3).collect();
        let extra: Vec<_> = got.iter().filter(|e| !expect.contains(e)).take(3).collect();
        let kind = if expect.len() != got.len() {
            "edge-count"
        } else if missing.iter().zip(extra.iter()).all(|(a, b)| a.0 == b.0 && a.1 == b.1 && a.2 == b.2) {
            "edge-kind-or-salt"
        } else if missing.iter().zip(extra.iter()).all(|(a, b)| a.0 == b.0 && a.1 == b.1 && a.3 == b.3) {
            "edge-name"
        } else {
            "edge-endpoints"
        };
        return fail(kind, format!("dependency edges differ: written-but-not-read {missing:?}, read-but-not-written {extra:?} (from, to, dep name, salt); lock text:\n{text}"));
    }
    Ok(Outcome { failure: None })
}

fn src_kind_of(s: &source::Pinned) -> &'static str {
    match s {
        source::Pinned::Member(_) => "member",
        source::Pinned::Path(_) => "path",
        source::Pinned::Git(_) => "git",
        source::Pinned::Ipfs(_) => "ipfs",
        source::Pinned::Registry(_) => "registry",
    }
}

fn observe(m: &MGraph, res: &mut ShardResult) {
    let mut dup_target = false;
    for (i, p) in m.pkgs.iter().enumerate() {
        res.count(&format!("src_{}", p.src.kind()));
        match &p.src {
            MSrc::Git { reference, .. } => res.count(match reference {
                MRef::Branch(_) => "git_ref_branch",
                MRef::Tag(_) => "git_ref_tag",
                MRef::Rev => "git_ref_rev",
                MRef::Default => "git_ref_default",
            }),
            MSrc::Ipfs { cid } => res.count(if cid.starts_with("Qm") { "ipfs_cid_v0" } else { "ipfs_cid_v1" }),
            MSrc::Reg { version, namespace, .. } => {
                if namespace.is_some() {
                    res.count("registry_domain_namespace");
                } else {
                    res.count("registry_flat_namespace");
                }
                if version.contains('-') || version.contains('+') {
                    res.count("registry_prerelease_or_build");
                }
            }
            _ => {}
        }
        let dup = m.pkgs.iter().enumerate().any(|(j, q)| j != i && q.name == p.name);
        if dup && m.edges.iter().any(|e| e.to == i) {
            dup_target = true;
        }
    }
    if dup_target {
        res.count("graphs_disambiguated");
    }
    for e in &m.edges {
        if e.name != m.pkgs[e.to].name {
            res.count("edges_renamed");
        }
        match &e.salt {
            None => res.count("edges_library"),
            Some(s) if s.bytes().all(|b| b == b'0') => res.count("edges_contract_zero_salt"),
            Some(_) => res.count("edges_contract_salted"),
        }
    }
    res.max("max_nodes", m.pkgs.len() as u64);
    res.max("max_edges", m.edges.len() as u64);
}

fn check(m: &MGraph, fixed: Option<&str>, scratch: &mut Scratch, res: &mut ShardResult) {
    res.evaluations += 1;
    let case = json!({"fixed": fixed, "graph": m});
    match roundtrip(m, scratch) {
        Err(why) => {
            res.count("rejected_inputs");
            res.inconclusive(format!("input graph rejected while constructing it: {why}"));
        }
        Ok(o) => {
            res.count("graphs");
            observe(m, res);
            if m.pkgs.len() >= 2 && !m.edges.is_empty() {
                res.note_nontrivial(hash64(serde_json::to_string(m).unwrap().as_bytes()));
            }
            match o.failure {
                None => {
                    res.count("roundtrip_ok");
                    if m.pkgs.len() >= 3 && m.edges.len() >= 2 {
                        res.sample(json!({"graph": m}));
                    }
                }
                Some((kind, desc)) => {
                    let sig = match fixed {
                        Some(name) => format!("fixed:{name}:{}", kind.split(':').next().unwrap_or(&kind)),
                        None => format!("roundtrip:{kind}"),
                    };
                    res.violation(sig, desc.chars().take(1500).collect::<String>(), case);
                }
            }
        }
    }
}

fn shard(ctx: &ShardCtx) -> ShardResult {
    let mut res = ShardResult::default();
    let mut scratch = match Scratch::new(&ctx.work()) {
        Ok(s) => s,
        Err(e) => {
            res.harness_fault = Some(e);
            return res;
        }
    };
    if ctx.shard == 0 {
        for (name, g) in fixed_cases() {
            res.count("fixed_cases_run");
            check(&g, Some(name), &mut scratch, &mut res);
        }
    }
    let mut i = 0u64;
    while ctx.time_left() {
        let mut rng = ctx.rng(i);
        let g = gen_graph(&mut rng);
        check(&g, None, &mut scratch, &mut res);
        i += 1;
    }
    res
}

fn replay(case: &Value) -> ShardResult {
    let mut res = ShardResult::default();
    let mut scratch = match Scratch::new(&work_dir("C20").join("replay")) {
        Ok(s) => s,
        Err(e) => {
            res.harness_fault = Some(e);
            return res;
        }
    };
    match serde_json::from_value::<MGraph>(case["graph"].clone()) {
        Ok(g) => {
            let fixed = case["fixed"].as_str().map(|s| s.to_string());
            check(&g, fixed.as_deref(), &mut scratch, &mut res);
        }
        Err(e) => res.harness_fault = Some(format!("cannot decode replay case: {e}")),
    }
    res
}
