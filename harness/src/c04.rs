//! C04: IR passes keep the IR well-formed.
//! Monitor (hook H1): inside the real compile pipeline the harness runs random sequences of
//! registered passes one at a time; `Context::verify()` with SSA-dominance checking runs
//! before and after every pass (PassManager::run does it), panics are caught and attributed to
//! the pass that was running.
use crate::common::*;
use crate::engine::*;
use crate::irhook::*;
use crate::swrun::*;
use crate::{Plan, Prop};
use rand::Rng;
use serde_json::{json, Value};
use std::panic::AssertUnwindSafe;

pub static META: PropertyMeta = PropertyMeta {
    id: "C04",
    level: "exploration",
    rule: "IR modules of SwGen programs (and of the sway-ir/tests and e2e corpus sources in thorough) x pass sequences: each registered transform alone, each preceded by inline / mem2reg, and random sequences of 2..16 registered transforms, always after lower-init-aggr; after every pass the IR verifier runs with SSA dominance checking; an evaluation = one (module, sequence); non-trivial = at least two passes of the sequence modified the IR; distinct = hash of (source, sequence)",
    assumptions: &[
        "Context::verify (sway-ir/src/verify.rs) is the definition of well-formed; a change that weakens the verifier itself is out of this monitor's sight",
        "IrError::InvalidPassModified (bookkeeping of the `modified` flag) is not a well-formedness failure and is only counted",
    ],
    floor_evaluations: 200,
    floor_nontrivial: 50,
    required_counters: &["verifier_runs", "passes_modified_ir", "sequences_random", "sequences_single"],
};

pub static PROP: Prop = Prop {
    meta: &META,
    plan: |t| Plan { nshards: 16, budget_s: t.pick(55.0, 540.0), mem_gib: 6 },
    shard,
    replay,
    extra: crate::no_extra,
    subcommand: crate::no_subcommand,
};

fn gen_sequence(rng: &mut rand::rngs::StdRng, k: u64, res: &mut ShardResult) -> Vec<String> {
    let mut seq = vec!["lower-init-aggr".to_string()];
    let pick = |rng: &mut rand::rngs::StdRng| TRANSFORMS[rng.gen_range(1..TRANSFORMS.len())].to_string();
    match k % 4 {
        0 => {
            res.count("sequences_single");
            seq.push(pick(rng));
        }
        1 => {
            res.count("sequences_after_inline_or_mem2reg");
            seq.push(if rng.gen_bool(0.5) { "inline".into() } else { "mem2reg".into() });
            seq.push(pick(rng));
        }
        _ => {
            res.count("sequences_random");
            let n = rng.gen_range(2..=16);
            for _ in 0..n {
                seq.push(pick(rng));
            }
        }
    }
    // the mandatory lowering passes follow, as in the real pipeline
    if rng.gen_bool(0.5) {
        seq.extend(MANDATORY_FUEL.iter().map(|s| s.to_string()));
    }
    seq
}

pub fn error_class(msg: &str) -> String {
    // verifier message with names and numbers abstracted
    bucket(msg)
}

fn run_one(am: &mut Amortised, src: &str, seq: &[String], res: &mut ShardResult, replay: Value) {
    res.evaluations += 1;
    let cfg = HookCfg { replace: Some(seq.to_vec()), dominance: true, rounds: Some(1), ..Default::default() };
    let (r, log) = with_hook(cfg, false, || catch(AssertUnwindSafe(|| am.compile("gencase", src, Profile::Debug))));
    let _ = std::fs::remove_dir_all(am.last_dir());
    if !log.invoked {
        // rejected before IR generation (or IR generation itself failed)
        res.count("not_reached_ir");
        return;
    }
    res.add("verifier_runs", log.ran.len() as u64 * 2);
    let modified = log.ran.iter().filter(|(_, m)| *m).count();
    res.add("passes_modified_ir", modified as u64);
    for (p, m) in &log.ran {
        res.count(&format!("ran.{p}"));
        if *m {
            res.count(&format!("modified.{p}"));
        }
    }
    if modified >= 2 {
        res.note_nontrivial(hash64(format!("{src}{seq:?}").as_bytes()));
    }
    match r {
        Err((loc, msg)) => {
            let pass = log.current.clone().unwrap_or_else(|| "<after passes>".into());
            if log.current.is_none() {
                // panic in the backend after the passes: not about IR well-formedness
                res.count("backend_panics_after_passes");
                return;
            }
            res.violation(format!("pass-panic:{}", panic_signature(&loc, &msg)), format!("pass `{pass}` panicked at {loc}: {} (sequence {seq:?})", msg.chars().take(160).collect::<String>()), replay);
        }
        Ok(_) => {
            if let Some((pass, err)) = &log.ir_error {
                if err.contains("returned") && err.contains("modified") {
                    res.count("invalid_pass_modified_reports");
                    return;
                }
                res.violation(format!("verify-failed-after:{pass}:{}", error_class(err)), format!("IR verifier rejected the module after pass `{pass}`: {} (sequence {seq:?})", err.chars().take(200).collect::<String>()), replay);
            } else if res.samples.len() < 2 {
                res.sample(json!({"sequence": seq, "passes_that_modified": log.ran.iter().filter(|(_, m)| *m).map(|(p, _)| p.clone()).collect::<Vec<_>>(), "source_head": src.lines().take(12).collect::<Vec<_>>()}));
            }
        }
    }
}

fn shard(ctx: &ShardCtx) -> ShardResult {
    let mut res = ShardResult::default();
    let mut am = Amortised::new(&ctx.work());
    if let Err(e) = am.warm() {
        res.harness_fault = Some(format!("std does not compile: {e}"));
        return res;
    }
    let per_program = ctx.tier.pick(8u64, 24u64);
    let mut i = ctx.first_index;
    let clock = ctx.clock();
    while clock.left() {
        // case i = (program i / per_program, sequence i % per_program)
        let pi = i / per_program;
        let mut scratch = ShardResult::default();
        let case = case_at(ctx.seed ^ 0x0c04, ctx.shard, pi, 1, &mut scratch);
        let mut rng = ctx.rng(i ^ 0x5eed_0000);
        let seq = gen_sequence(&mut rng, i, &mut res);
        let replay = json!({"source": case.src, "sequence": seq});
        ctx.begin_case(i, &format!("// origin: {:?} sequence {seq:?}\n{}", case.origin, case.src), &res);
        run_one(&mut am, &case.src, &seq, &mut res, replay);
        ctx.end_case();
        i += 1;
    }
    res
}

fn replay(case: &Value) -> ShardResult {
    let mut res = ShardResult::default();
    let work = work_dir("C04").join("replay");
    clean_dir(&work);
    let mut am = Amortised::new(&work);
    let src = case["source"].as_str().unwrap_or("").to_string();
    let seq: Vec<String> = serde_json::from_value(case["sequence"].clone()).unwrap_or_default();
    run_one(&mut am, &src, &seq, &mut res, case.clone());
    res
}
