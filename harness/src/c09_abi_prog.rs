// Part 3 (included from c09_abi.rs): program specifications, Sway program builder, evaluator.

#[derive(Clone, Debug, Serialize, Deserialize)]
pub struct Corrupt {
    /// index into `vals`
    pub val: usize,
    pub off: usize,
    pub bytes: Vec<u8>,
    pub kind: LeafKind,
    pub path: String,
}

#[derive(Clone, Debug, Serialize, Deserialize)]
pub struct Entry {
    pub ty: Ty,
    pub vals: Vec<Val>,
    #[serde(default)]
    pub corrupt: Vec<Corrupt>,
    /// byte strings of the canonical length (types where every bit pattern is a value)
    #[serde(default)]
    pub random: Vec<Vec<u8>>,
}

#[derive(Clone, Debug, Serialize, Deserialize)]
pub struct Spec {
    /// mono: `fn main(a0: T0, ..) -> (T0, ..)`; else a universe program with In/Out carriers
    pub mono: bool,
    pub c10: bool,
    pub entries: Vec<Entry>,
}

pub struct GenParams {
    pub c10: bool,
    pub mono: bool,
    pub ntypes: usize,
    pub nvals: usize,
    pub ncorrupt: usize,
    pub nrandom: usize,
    /// anchor case: word-only material (the trivially encodable / decodable entry paths)
    pub force_words: bool,
}

pub fn invalid_patterns(rng: &mut StdRng, kind: LeafKind) -> Option<Vec<u8>> {
    match kind {
        LeafKind::Bool => {
            let r: u8 = rng.gen_range(2..=255);
            Some(vec![*choose(rng, &[2u8, 3, 0xff, 0x80, 0x10, 0x7f, 0xfe, r])])
        }
        LeafKind::Tag(n) => {
            let r: u64 = rng.gen_range(0..1000);
            let cands = [n, n, n + 1, u64::MAX, 1 << 32, 1 << 8, 1 << 56, n + r];
            let c = *choose(rng, &cands);
            let c = if c < n { n } else { c };
            Some(c.to_be_bytes().to_vec())
        }
        _ => None,
    }
}

pub fn gen_spec(rng: &mut StdRng, p: &GenParams) -> Spec {
    let mut entries = vec![];
    // declaration names are unique per program (tag): the amortised engine shares one `Engines`
    // between the programs of a worker
    let mut next_name = rng.gen_range(1..1_000_000usize) * 1000;
    for _ in 0..p.ntypes {
        let bias = if p.force_words {
            Bias::Words
        } else if !p.c10 {
            if chance(rng, 0.1) { Bias::Words } else { Bias::Uniform }
        } else if chance(rng, 0.25) {
            Bias::Words
        } else if chance(rng, 0.3) {
            Bias::NearTrivial
        } else if chance(rng, 0.12) {
            Bias::Uniform
        } else {
            Bias::Padding
        };
        let mut g = Gen { rng: &mut *rng, bias, next_name, allow_trivial_wrappers: p.c10 };
        let ty = g.top(4);
        let vals = g.vals(&ty, p.nvals);
        next_name = g.next_name;
        let mut corrupt = vec![];
        let mut random = vec![];
        if p.c10 {
            for _ in 0..p.ncorrupt {
                let vi = rng.gen_range(0..vals.len());
                let Ok(c) = canon(&ty, &vals[vi]) else { continue };
                let cands: Vec<&Leaf> = c.leaves.iter().filter(|l| !l.deferred && matches!(l.kind, LeafKind::Bool | LeafKind::Tag(_))).collect();
                if cands.is_empty() {
                    continue;
                }
                let l = *choose(rng, &cands);
                if let Some(bytes) = invalid_patterns(rng, l.kind) {
                    corrupt.push(Corrupt { val: vi, off: l.off, bytes, kind: l.kind, path: l.path.clone() });
                }
            }
            if ty.total() {
                let n = canon_bytes(&ty, &vals[0]).map(|b| b.len()).unwrap_or(0);
                for _ in 0..p.nrandom {
                    random.push((0..n).map(|_| if chance(rng, 0.2) { *choose(rng, &[0u8, 0xff, 1, 0x80]) } else { rng.gen() }).collect());
                }
            }
        }
        entries.push(Entry { ty, vals, corrupt, random });
    }
    Spec { mono: p.mono, c10: p.c10, entries }
}

/// value of a total type from its canonical bytes
pub fn decode_total(ty: &Ty, b: &mut &[u8]) -> Option<Val> {
    let mut take = |n: usize| -> Option<Vec<u8>> {
        if b.len() < n {
            return None;
        }
        let (h, t) = b.split_at(n);
        let r = h.to_vec();
        *b = t;
        Some(r)
    };
    Some(match ty {
        Ty::Unit => Val::Unit,
        Ty::U8 => Val::Uint(take(1)?[0] as u64),
        Ty::U16 => Val::Uint(u16::from_be_bytes(take(2)?.try_into().ok()?) as u64),
        Ty::U32 => Val::Uint(u32::from_be_bytes(take(4)?.try_into().ok()?) as u64),
        Ty::U64 => Val::Uint(u64::from_be_bytes(take(8)?.try_into().ok()?)),
        Ty::U256 | Ty::B256 => Val::Big(take(32)?.try_into().ok()?),
        Ty::Array(t, n) => Val::Seq((0..*n).map(|_| decode_total(t, b)).collect::<Option<_>>()?),
        Ty::Tuple(ts) if ts.is_empty() => Val::Unit,
        Ty::Tuple(ts) | Ty::Struct { fields: ts, .. } => Val::Seq(ts.iter().map(|t| decode_total(t, b)).collect::<Option<_>>()?),
        _ => return None,
    })
}

// ------------------------------------------------------------------------------------------
// program text

pub const M_LIT: u64 = 0;
pub const M_ECHO: u64 = 1;
pub const M_ECHOX: u64 = 2;
pub const M_RT: u64 = 3;
pub const M_DEC: u64 = 4;
pub const M_DECX: u64 = 5;
pub const M_INFO: u64 = 6;

pub fn mode_name(m: u64) -> &'static str {
    ["literal", "echo", "echo-raw", "roundtrip", "decode", "decode-raw", "info"][m as usize]
}

pub fn sel(i: usize, m: u64, j: usize) -> u64 {
    (i as u64) * 256 + m * 16 + j as u64
}

pub fn in_ty(spec: &Spec) -> Ty {
    let mut vs: Vec<Ty> = spec.entries.iter().map(|e| e.ty.clone()).collect();
    vs.push(Ty::Bytes);
    Ty::Enum { name: "In".into(), variants: vs, generic: None }
}

pub fn out_ty(spec: &Spec) -> Ty {
    let mut vs: Vec<Ty> = spec.entries.iter().map(|e| e.ty.clone()).collect();
    vs.push(Ty::Bool);
    Ty::Enum { name: "Out".into(), variants: vs, generic: None }
}

pub fn mono_ret_ty(spec: &Spec) -> Ty {
    if spec.entries.len() == 1 {
        spec.entries[0].ty.clone()
    } else {
        Ty::Tuple(spec.entries.iter().map(|e| e.ty.clone()).collect())
    }
}

pub fn mono_args_ty(spec: &Spec) -> Ty {
    Ty::Tuple(spec.entries.iter().map(|e| e.ty.clone()).collect())
}

const PRELUDE: &str = "script;\nuse std::bytes::Bytes;\nuse std::string::String;\nuse std::codec::*;\n\n";

pub fn print_program(spec: &Spec) -> String {
    let mut s = String::from(PRELUDE);
    let mut decls: Vec<&Ty> = vec![];
    for e in &spec.entries {
        collect_decls(&e.ty, &mut decls);
    }
    for d in &decls {
        s.push_str(&print_decl(d));
        s.push('\n');
    }
    if spec.mono {
        let params: Vec<String> = spec.entries.iter().enumerate().map(|(i, e)| format!("a{i}: {}", e.ty.sway())).collect();
        let ret = mono_ret_ty(spec);
        s.push_str(&format!("fn main({}) -> {} {{\n", params.join(", "), ret.sway()));
        s.push_str(&format!("    log(is_decode_trivial::<{}>());\n    log(is_encode_trivial::<{}>());\n", mono_args_ty(spec).sway(), ret.sway()));
        for i in 0..spec.entries.len() {
            s.push_str(&format!("    log(a{i});\n"));
        }
        if spec.entries.len() == 1 {
            s.push_str("    a0\n}\n");
        } else {
            s.push_str(&format!("    ({},)\n}}\n", (0..spec.entries.len()).map(|i| format!("a{i}")).collect::<Vec<_>>().join(", ")));
        }
        return s;
    }
    let k = spec.entries.len();
    s.push_str("enum In {\n");
    for (i, e) in spec.entries.iter().enumerate() {
        s.push_str(&format!("    V{i}: {},\n", e.ty.sway()));
    }
    s.push_str(&format!("    V{k}: Bytes,\n}}\nenum Out {{\n"));
    for (i, e) in spec.entries.iter().enumerate() {
        s.push_str(&format!("    V{i}: {},\n", e.ty.sway()));
    }
    s.push_str(&format!("    V{k}: bool,\n}}\n\n"));
    if spec.c10 {
        // the image is copied to the heap while `v` is alive (a pointer into this frame would dangle)
        s.push_str("fn mem_image<T>(v: T) -> raw_slice {\n    let size = __size_of::<T>();\n    let ptr = asm(size: size, src: &v) {\n        aloc size;\n        mcp hp src size;\n        hp: raw_ptr\n    };\n    raw_slice::from_parts::<u8>(ptr, size)\n}\n\n");
    }
    s.push_str(&format!("fn raw_in(input: In) -> raw_slice {{\n    match input {{\n        In::V{k}(b) => b.as_raw_slice(),\n        _ => revert(99),\n    }}\n}}\n\n"));
    for (i, e) in spec.entries.iter().enumerate() {
        let t = e.ty.sway();
        for (j, v) in e.vals.iter().enumerate() {
            s.push_str(&print_val_fn(&format!("val_{i}_{j}"), &e.ty, v));
        }
        s.push_str(&format!("fn lit{i}(j: u64) -> {t} {{\n    match j {{\n"));
        for j in 0..e.vals.len() {
            s.push_str(&format!("        {j} => val_{i}_{j}(),\n"));
        }
        s.push_str("        _ => revert(97),\n    }\n}\n");
        s.push_str(&format!("fn in{i}(input: In) -> {t} {{\n    match input {{\n        In::V{i}(x) => x,\n        _ => revert(99),\n    }}\n}}\n"));
        let eq = e.ty.has_eq();
        s.push_str(&format!("fn t{i}(m: u64, j: u64, input: In) -> Out {{\n"));
        s.push_str(&format!("    if m == {M_LIT} {{\n        let v: {t} = lit{i}(j);\n        log(v);\n        Out::V{i}(v)\n    }}"));
        s.push_str(&format!(" else if m == {M_ECHO} {{\n        let x: {t} = in{i}(input);\n        log(x);\n{}        Out::V{i}(x)\n    }}", if eq { format!("        log(x == lit{i}(j));\n") } else { String::new() }));
        s.push_str(&format!(" else if m == {M_ECHOX} {{\n        let x: {t} = in{i}(input);\n        log(x);\n        Out::V{i}(x)\n    }}"));
        s.push_str(&format!(" else if m == {M_RT} {{\n        let v: {t} = lit{i}(j);\n        let d: {t} = abi_decode::<{t}>(encode(v));\n{}        Out::V{i}(d)\n    }}", if eq { "        log(d == v);\n".to_string() } else { String::new() }));
        s.push_str(&format!(" else if m == {M_DEC} {{\n        let d: {t} = abi_decode::<{t}>(raw_in(input));\n{}        Out::V{i}(d)\n    }}", if eq { format!("        log(d == lit{i}(j));\n") } else { String::new() }));
        s.push_str(&format!(" else if m == {M_DECX} {{\n        let d: {t} = abi_decode::<{t}>(raw_in(input));\n        Out::V{i}(d)\n    }}"));
        if spec.c10 {
            s.push_str(&format!(" else if m == {M_INFO} {{\n        let v: {t} = lit{i}(j);\n        log(is_encode_trivial::<{t}>());\n        log(is_decode_trivial::<{t}>());\n        log(__size_of::<{t}>());\n        log(mem_image(v));\n        log(encode(v));\n        Out::V{k}(true)\n    }}"));
        }
        s.push_str(" else {\n        revert(96)\n    }\n}\n\n");
    }
    s.push_str("fn main(sel: u64, input: In) -> Out {\n    let i: u64 = sel / 256u64;\n    let m: u64 = (sel / 16u64) % 16u64;\n    let j: u64 = sel % 16u64;\n    match i {\n");
    for i in 0..k {
        s.push_str(&format!("        {i} => t{i}(m, j, input),\n"));
    }
    s.push_str("        _ => revert(98),\n    }\n}\n");
    s
}

// ------------------------------------------------------------------------------------------
// evaluator

pub struct Checker<'r> {
    pub res: &'r mut ShardResult,
    pub spec_json: serde_json::Value,
}

pub fn shape_sig(ty: &Ty) -> String {
    fn walk(t: &Ty, out: &mut std::collections::BTreeSet<&'static str>) {
        for c in t.children() {
            out.insert(c.ctor());
            walk(c, out);
        }
    }
    let mut set = std::collections::BTreeSet::new();
    walk(ty, &mut set);
    format!("{}({})", ty.ctor(), set.into_iter().collect::<Vec<_>>().join(","))
}

/// a str[N] (N not a multiple of 8) so close to the end of the encoding that reading its padded
/// in-memory size runs past the end of the buffer
pub fn strn_overread(ty: &Ty, v: &Val) -> bool {
    let Ok(c) = canon(ty, v) else { return false };
    c.leaves.iter().any(|l| l.path.ends_with("strN") && l.len % 8 != 0 && l.off + l.len.div_ceil(8) * 8 > c.bytes.len())
}

/// signature of a run that reverted although its input was canonical: names the mode, the VM
/// outcome and the shape class (mechanism), not the seed
pub fn revert_sig(mode: &str, ty: &Ty, v: &Val, o: &Outcome) -> String {
    let out = match o {
        Outcome::Panic(r) => r.clone(),
        Outcome::Revert(c) => format!("revert-{c:#x}"),
        Outcome::Return(_) => "plain-return".into(),
        _ => "other".into(),
    };
    let class = if ty.contains(&|t| matches!(t, Ty::TrivialEnum(_))) {
        "tenum".to_string()
    } else if strn_overread(ty, v) {
        "strN-padded-read-past-buffer-end".to_string()
    } else {
        let tail = canon(ty, v).ok().and_then(|c| c.leaves.last().map(|l| l.path.rsplit('>').next().unwrap_or("").to_string())).unwrap_or_default();
        format!("top={},tail={tail}", ty.ctor())
    };
    format!("unexpected-revert:{mode}:{out}:{class}")
}

/// collapse everything that involves the std TrivialEnum wrapper into one class
pub fn path_class(ty: &Ty, path: &str) -> String {
    if path.contains("tenum") || ty.contains(&|t| matches!(t, Ty::TrivialEnum(_))) {
        "tenum".into()
    } else {
        path.to_string()
    }
}

impl<'r> Checker<'r> {
    fn replay(&self, extra: serde_json::Value) -> serde_json::Value {
        json!({"spec": self.spec_json, "at": extra})
    }

    fn violation(&mut self, sig: String, desc: String, at: serde_json::Value) {
        // one root cause, many symptoms: everything observed on a type that involves the std
        // TrivialEnum wrapper is collapsed to (wrapper, symptom kind)
        let sig = if sig.ends_with(":tenum") { format!("trivial-enum-wrapper:{}", sig.split(':').next().unwrap_or("")) } else { sig };
        let r = self.replay(at);
        self.res.violation(sig, desc, r);
    }

    /// observed bytes against both references; returns true when equal
    #[allow(clippy::too_many_arguments)]
    fn compare(&mut self, what: &str, mode: &str, profile: Profile, ty: &Ty, v: &Val, pt: &Result<ParamType, String>, observed: &[u8], strip: usize) -> bool {
        match reference_bytes(ty, v, pt) {
            Ok(r) => {
                self.res.add("bytes_compared", r.len() as u64);
                if r == observed {
                    true
                } else {
                    let mut path = diff_path(ty, v, observed);
                    for _ in 0..strip {
                        // drop the carrier enum from the path
                        if let Some(p) = path.split_once('>') {
                            path = p.1.to_string();
                        }
                    }
                    let path = path_class(ty, &path);
                    self.violation(
                        format!("{what}-differs:{mode}:{path}"),
                        format!("[{}] {what} of {} in mode {mode}: observed {} / canonical {} (value {v:?})", profile.name(), ty.sway(), hex::encode(observed), hex::encode(&r)),
                        json!({"mode": mode, "profile": profile.name(), "type": ty.sway()}),
                    );
                    false
                }
            }
            Err(RefErr::Shape(e)) => {
                self.violation(format!("json-abi-mismatch:{what}:{}", shape_sig(ty)), format!("[{}] {e}", profile.name()), json!({"mode": mode, "type": ty.sway()}));
                false
            }
            Err(RefErr::Harness(e)) => {
                self.res.count("reference_unavailable");
                self.res.inconclusive(format!("reference codecs: {e}"));
                false
            }
        }
    }

    fn check_log(&mut self, mode: &str, profile: Profile, abi: &AbiView, log: Option<&(u64, Vec<u8>)>, ty: &Ty, v: &Val, owner: &Ty) -> bool {
        let Some((rb, data)) = log else {
            self.violation(format!("log-missing:{mode}:{}", shape_sig(owner)), format!("[{}] no LogData receipt for the {} logged in mode {mode}", profile.name(), ty.sway()), json!({"mode": mode, "type": owner.sway()}));
            return false;
        };
        let Some(pt) = abi.logged.get(rb) else {
            self.violation(format!("log-id-unknown:{mode}:{}", shape_sig(owner)), format!("[{}] log id {rb} of a logged {} is not in the JSON ABI loggedTypes", profile.name(), ty.sway()), json!({"mode": mode, "type": owner.sway()}));
            return false;
        };
        let pt = pt.clone();
        self.res.count("logs_compared");
        if *ty == Ty::Bool && *v == Val::Bool(true) && data.as_slice() == [0u8] {
            self.violation(format!("in-vm-eq-false:{mode}:{}", path_class(owner, &shape_sig(owner))), format!("[{}] `==` between the decoded value and the original is false in the VM for {} (mode {mode})", profile.name(), owner.sway()), json!({"mode": mode, "type": owner.sway()}));
            return false;
        }
        self.compare("log", mode, profile, ty, v, &pt, data, 0)
    }
}

pub struct Built {
    pub byte: [Vec<u8>; 2],
    pub abi: [AbiView; 2],
}

pub fn first_error(am: &mut Amortised, dir: &std::path::Path, profile: Profile) -> String {
    match am.diagnose_dir(dir, profile) {
        Ok((errs, _)) => errs.first().map(|e| format!("{e}").chars().take(300).collect()).unwrap_or_else(|| "no diagnostics".into()),
        Err(e) => format!("{e}").chars().take(300).collect(),
    }
}

/// compile the program in both profiles; None = rejected (counted, inconclusive)
pub fn build(am: &mut Amortised, src: &str, res: &mut ShardResult, prop: &str, watch: Option<(&ShardCtx, u64)>) -> Option<Built> {
    let mut bytes: Vec<Vec<u8>> = vec![];
    let mut abis: Vec<AbiView> = vec![];
    // a package name of its own per program: the worker's `Engines` are shared between programs and
    // equal call paths (`abicase::S0`) of different programs confuse them
    let pkg_name = format!("abi{:012x}", hash64(src.as_bytes()) & 0xffff_ffff_ffff);
    for profile in Profile::BOTH {
        // the per-case watchdog guards the compiler (which can hang), one compilation at a time
        if let Some((ctx, index)) = watch {
            ctx.begin_case(index, src, res);
        }
        let compiled = catch(AssertUnwindSafe(|| am.compile(&pkg_name, src, profile)));
        if let Some((ctx, _)) = watch {
            ctx.end_case();
        }
        match compiled {
            Ok(Ok(c)) => {
                match abi_view(&c.pkg.program_abi) {
                    Ok(a) => {
                        bytes.push(c.pkg.bytecode.bytes.clone());
                        abis.push(a);
                    }
                    Err(e) => {
                        res.count("abi_unreadable");
                        res.inconclusive(format!("JSON ABI of a generated program cannot be read by fuel-abi-types: {e}"));
                    }
                }
                am.remove(&c);
            }
            Ok(Err(e)) => {
                let dir = am.last_dir();
                let msg = first_error(am, &dir, profile);
                res.count("programs_rejected");
                res.inconclusive(format!("generated program rejected ({}): {e}: {msg}", profile.name()));
                let keep = work_dir(prop).join("rejected");
                std::fs::create_dir_all(&keep).ok();
                let _ = std::fs::write(keep.join(format!("{:016x}.sw", hash64(src.as_bytes()))), format!("// {} {msg}\n{src}", profile.name()));
                let _ = std::fs::remove_dir_all(dir);
                return None;
            }
            Err((loc, msg)) => {
                res.count("compiler_panics");
                res.inconclusive(format!("compiler panic on a generated program at {loc}: {}", msg.chars().take(200).collect::<String>()));
                let _ = std::fs::remove_dir_all(am.last_dir());
                return None;
            }
        }
    }
    if bytes.len() != 2 {
        return None;
    }
    let b1 = bytes.pop().unwrap();
    let b0 = bytes.pop().unwrap();
    let a1 = abis.pop().unwrap();
    let a0 = abis.pop().unwrap();
    Some(Built { byte: [b0, b1], abi: [a0, a1] })
}

fn note_types(spec: &Spec, res: &mut ShardResult) {
    fn walk(t: &Ty, res: &mut ShardResult) {
        for c in t.children() {
            res.count(&format!("nest_{}>{}", t.ctor(), c.ctor()));
            walk(c, res);
        }
    }
    for e in &spec.entries {
        res.count("types");
        res.count(&format!("top_{}", e.ty.ctor()));
        res.max("max_type_depth", e.ty.depth() as u64);
        walk(&e.ty, res);
        for c in padding_classes(&e.ty) {
            res.count(&format!("pad_{c}"));
        }
    }
}

/// padding classes a type exhibits (C10 evidence)
pub fn padding_classes(ty: &Ty) -> Vec<&'static str> {
    fn small(t: &Ty) -> bool {
        matches!(t, Ty::U8 | Ty::Bool)
    }
    fn wordish(t: &Ty) -> bool {
        matches!(t, Ty::U64 | Ty::U256 | Ty::B256 | Ty::U16 | Ty::U32)
    }
    fn walk(t: &Ty, out: &mut std::collections::BTreeSet<&'static str>, nested: bool) {
        match t {
            Ty::Struct { fields: ts, .. } | Ty::Tuple(ts) => {
                if ts.iter().any(|x| matches!(x, Ty::U8)) && ts.iter().any(wordish) {
                    out.insert("u8_next_to_word");
                }
                if ts.iter().any(|x| matches!(x, Ty::Bool)) && ts.iter().any(wordish) {
                    out.insert("bool_next_to_word");
                }
                if ts.iter().any(|x| matches!(x, Ty::StrN(n) if n % 8 != 0)) {
                    out.insert("strn_unaligned_in_aggregate");
                }
                if ts.iter().filter(|x| small(x)).count() >= 2 {
                    out.insert("adjacent_small_scalars");
                }
                if ts.iter().any(|x| x.zero_sized()) {
                    out.insert("zero_sized_field");
                }
                if nested && ts.iter().any(|x| small(x) || matches!(x, Ty::StrN(n) if n % 8 != 0)) {
                    out.insert("nested_unaligned_aggregate");
                }
            }
            Ty::Enum { variants: vs, .. } => {
                if vs.iter().all(|v| v.zero_sized()) {
                    out.insert("unit_only_enum");
                } else if vs.iter().any(|v| v.zero_sized()) {
                    out.insert("zero_sized_variant_among_payloads");
                }
                if vs.iter().any(small) {
                    out.insert("small_scalar_enum_payload");
                }
                if vs.iter().any(|v| matches!(v, Ty::StrN(n) if n % 8 != 0)) {
                    out.insert("strn_enum_payload");
                }
            }
            Ty::Option(i) if small(i) => {
                out.insert("small_scalar_enum_payload");
            }
            Ty::Array(e, _) => {
                if small(e) {
                    out.insert("array_of_small_scalars");
                }
                if matches!(**e, Ty::U16 | Ty::U32) {
                    out.insert("array_of_u16_u32");
                }
                if matches!(**e, Ty::StrN(n) if n % 8 != 0) {
                    out.insert("array_of_unaligned_strn");
                }
            }
            Ty::Vec(e) if small(e) => {
                out.insert("vec_of_small_scalars");
            }
            Ty::StrN(n) if n % 8 != 0 && !nested => {
                out.insert("strn_unaligned_top");
            }
            Ty::TrivialBool => {
                out.insert("trivial_bool_wrapper");
            }
            Ty::TrivialEnum(_) => {
                out.insert("trivial_enum_wrapper");
            }
            _ => {}
        }
        for c in t.children() {
            walk(c, out, true);
        }
    }
    let mut set = std::collections::BTreeSet::new();
    walk(ty, &mut set, false);
    set.into_iter().collect()
}

fn parse_raw_slice_log(d: &[u8]) -> Option<Vec<u8>> {
    if d.len() < 8 {
        return None;
    }
    let n = u64::from_be_bytes(d[..8].try_into().ok()?) as usize;
    if d.len() != 8 + n {
        return None;
    }
    Some(d[8..].to_vec())
}

pub fn check_spec(am: &mut Amortised, spec: &Spec, res: &mut ShardResult, watch: Option<(&ShardCtx, u64)>) {
    let src = print_program(spec);
    let Some(built) = build(am, &src, res, if spec.c10 { "C10" } else { "C09" }, watch) else { return };
    res.count("programs_compiled");
    res.count(if spec.mono { "programs_mono" } else { "programs_universe" });
    note_types(spec, res);
    if res.samples.len() < 2 {
        res.sample(json!({"kind": if spec.mono { "mono" } else { "universe" }, "types": spec.entries.iter().map(|e| e.ty.sway()).collect::<Vec<_>>(), "values_of_first_type": spec.entries[0].vals.iter().map(|v| format!("{v:?}")).collect::<Vec<_>>(), "encoding_version": built.abi[0].encoding_version, "source_head": src.chars().take(1200).collect::<String>()}));
    }
    let mut ck = Checker { res, spec_json: serde_json::to_value(spec).unwrap() };
    for (pi, profile) in Profile::BOTH.iter().enumerate() {
        if built.abi[pi].encoding_version != "1" {
            ck.res.inconclusive(format!("JSON ABI encoding version is {}", built.abi[pi].encoding_version));
            return;
        }
        if spec.mono {
            check_mono(&mut ck, spec, &built.byte[pi], &built.abi[pi], *profile);
        } else {
            check_universe(&mut ck, spec, &built.byte[pi], &built.abi[pi], *profile);
        }
    }
}

fn case_hash(ty: &Ty, v: &Val) -> u64 {
    hash64(serde_json::to_string(&(ty, v)).unwrap().as_bytes())
}

fn check_universe(ck: &mut Checker, spec: &Spec, code: &[u8], abi: &AbiView, profile: Profile) {
    let k = spec.entries.len();
    let in_t = in_ty(spec);
    let out_t = out_ty(spec);
    let pt_in = abi.inputs.get(1).cloned().unwrap_or(Err("main has no second input in the JSON ABI".into()));
    let pt_out = abi.output.clone();
    let dummy_in = Val::Variant(k, Box::new(Val::Blob(vec![])));
    let dummy = canon_bytes(&in_t, &dummy_in).unwrap();
    let data = |s: u64, tail: &[u8]| -> Vec<u8> {
        let mut d = s.to_be_bytes().to_vec();
        d.extend_from_slice(tail);
        d
    };
    for (i, e) in spec.entries.iter().enumerate() {
        let eq = e.ty.has_eq();
        let nontrivial = e.ty.depth() >= 2;
        let mut enc_trivial = false;
        let mut dec_trivial = false;
        let mut baseline_bad = std::collections::BTreeSet::new();
        for (j, v) in e.vals.iter().enumerate() {
            if j >= 16 {
                break;
            }
            let Ok(cb) = canon_bytes(&e.ty, v) else { continue };
            let out_v = Val::Variant(i, Box::new(v.clone()));
            ck.res.count("values");
            if nontrivial {
                ck.res.note_nontrivial(case_hash(&e.ty, v));
            }
            // the input carrier as the SDK would encode it
            let in_v = Val::Variant(i, Box::new(v.clone()));
            let in_bytes = match reference_bytes(&in_t, &in_v, &pt_in) {
                Ok(b) => b,
                Err(RefErr::Shape(m)) => {
                    ck.violation(format!("json-abi-mismatch:input:{}", shape_sig(&e.ty)), format!("[{}] {m}", profile.name()), json!({"type": e.ty.sway()}));
                    continue;
                }
                Err(RefErr::Harness(m)) => {
                    ck.res.count("reference_unavailable");
                    ck.res.inconclusive(format!("reference codecs: {m}"));
                    continue;
                }
            };
            let raw_v = Val::Variant(k, Box::new(Val::Blob(cb.clone())));
            let raw_bytes = canon_bytes(&in_t, &raw_v).unwrap();
            // C10 only needs the two decode routes as the baseline of its corruption runs
            let runs: Vec<(u64, &[u8])> = if spec.c10 { vec![(M_ECHO, &in_bytes), (M_DEC, &raw_bytes)] } else { vec![(M_LIT, &dummy), (M_ECHO, &in_bytes), (M_RT, &dummy), (M_DEC, &raw_bytes)] };
            for (m, tail) in runs {
                let obs = run_script(code, &data(sel(i, m, j), tail));
                ck.res.evaluations += 1;
                ck.res.count(&format!("runs_{}", mode_name(m)));
                if m == M_ECHO || m == M_DEC {
                    ck.res.count("decode_path_executions");
                }
                let mode = mode_name(m);
                match &obs.outcome {
                    Outcome::ReturnData(d) => {
                        if ck.compare("return", mode, profile, &out_t, &out_v, &pt_out, d, 1) {
                            ck.res.count("returns_equal");
                        }
                    }
                    Outcome::VmError(err) => {
                        ck.res.inconclusive(format!("VM refused a run: {err}"));
                        continue;
                    }
                    o => {
                        if spec.c10 {
                            // decoding canonical bytes is C09's statement; here it only voids the baseline
                            ck.res.count("baseline_decode_reverted");
                            baseline_bad.insert(j);
                            continue;
                        }
                        ck.violation(revert_sig(mode, &e.ty, v, o), format!("[{}] mode {mode} on {} value {v:?}: {}", profile.name(), e.ty.sway(), obs.short()), json!({"mode": mode, "type": e.ty.sway(), "entry": i, "value": j}));
                        continue;
                    }
                }
                let mut li = 0;
                if m == M_LIT || m == M_ECHO {
                    ck.check_log(mode, profile, abi, obs.logs.get(li), &e.ty, v, &e.ty);
                    li += 1;
                }
                if eq && m != M_LIT {
                    if ck.check_log(mode, profile, abi, obs.logs.get(li), &Ty::Bool, &Val::Bool(true), &e.ty) {
                        ck.res.count("in_vm_eq_true");
                    }
                    li += 1;
                }
                if obs.logs.len() != li {
                    ck.violation(format!("extra-logs:{mode}:{}", shape_sig(&e.ty)), format!("[{}] {} log receipts, expected {li}: {}", profile.name(), obs.logs.len(), obs.short()), json!({"mode": mode, "type": e.ty.sway()}));
                }
            }
            if spec.c10 {
                let obs = run_script(code, &data(sel(i, M_INFO, j), &dummy));
                ck.res.evaluations += 1;
                ck.res.count("runs_info");
                let parsed = (|| {
                    if obs.logs.len() != 5 || obs.outcome.reverted() {
                        return None;
                    }
                    let et = match obs.logs[0].1.as_slice() { [0] => false, [1] => true, _ => return None };
                    let dt = match obs.logs[1].1.as_slice() { [0] => false, [1] => true, _ => return None };
                    let size = u64::from_be_bytes(obs.logs[2].1.as_slice().try_into().ok()?);
                    let mem = parse_raw_slice_log(&obs.logs[3].1)?;
                    let enc = parse_raw_slice_log(&obs.logs[4].1)?;
                    Some((et, dt, size, mem, enc))
                })();
                let Some((et, dt, size, mem, enc)) = parsed else {
                    if matches!(obs.outcome, Outcome::VmError(_)) {
                        ck.res.inconclusive("VM refused an info run");
                    } else {
                        ck.violation(revert_sig("info", &e.ty, v, &obs.outcome), format!("[{}] info mode on {}: {}", profile.name(), e.ty.sway(), obs.short()), json!({"mode": "info", "type": e.ty.sway()}));
                    }
                    continue;
                };
                enc_trivial = et;
                dec_trivial = dt;
                if j == 0 && profile == Profile::Debug {
                    ck.res.count(if et { "types_encode_trivial" } else { "types_encode_nontrivial" });
                    ck.res.count(if dt { "types_decode_trivial" } else { "types_decode_nontrivial" });
                    if et && e.ty.depth() >= 2 {
                        ck.res.count("aggregate_types_encode_trivial");
                    }
                    if dt && e.ty.depth() >= 2 {
                        ck.res.count("aggregate_types_decode_trivial");
                    }
                }
                ck.res.add("bytes_compared", cb.len() as u64);
                if enc != cb {
                    let path = path_class(&e.ty, &diff_path(&e.ty, v, &enc));
                    ck.violation(format!("encode-differs:{}:{path}", if et { "classified-trivial" } else { "classified-nontrivial" }), format!("[{}] encode(v) of {} = {} / canonical {} (value {v:?})", profile.name(), e.ty.sway(), hex::encode(&enc), hex::encode(&cb)), json!({"mode": "info", "type": e.ty.sway()}));
                }
                for (flag, name) in [(et, "encode"), (dt, "decode")] {
                    if !flag {
                        continue;
                    }
                    ck.res.count(&format!("memory_images_compared_{name}_trivial"));
                    if mem != cb || size as usize != cb.len() {
                        let path = path_class(&e.ty, &diff_path(&e.ty, v, &mem));
                        ck.violation(
                            format!("{name}-trivial-memory-differs:{path}"),
                            format!("[{}] {} is classified trivially {name}able but the memory image {} (size_of {size}) is not the canonical encoding {} (value {v:?})", profile.name(), e.ty.sway(), hex::encode(&mem), hex::encode(&cb)),
                            json!({"mode": "info", "type": e.ty.sway()}),
                        );
                    } else {
                        ck.res.count("memory_image_equals_canonical");
                    }
                }
            }
        }
        if !spec.c10 {
            continue;
        }
        let cls = format!("{}{}", if dec_trivial { "decode-trivial" } else { "decode-nontrivial" }, if enc_trivial { "" } else { "" });
        // corrupted encodings must revert on both decode routes
        for c in &e.corrupt {
            let Some(v) = e.vals.get(c.val) else { continue };
            if baseline_bad.contains(&c.val) {
                ck.res.count("corruptions_skipped_no_baseline");
                continue;
            }
            let Ok(mut cb) = canon_bytes(&e.ty, v) else { continue };
            if c.off + c.bytes.len() > cb.len() {
                continue;
            }
            cb[c.off..c.off + c.bytes.len()].copy_from_slice(&c.bytes);
            let kind = if c.kind == LeafKind::Bool { "bool" } else { "tag" };
            let mut via_carrier = (i as u64).to_be_bytes().to_vec();
            via_carrier.extend_from_slice(&cb);
            let raw_bytes = canon_bytes(&in_t, &Val::Variant(k, Box::new(Val::Blob(cb.clone())))).unwrap();
            for (route, m, tail) in [("abi_decode", M_DECX, &raw_bytes), ("script-data", M_ECHOX, &via_carrier)] {
                let obs = run_script(code, &data(sel(i, m, 0), tail));
                ck.res.evaluations += 1;
                ck.res.count("invalid_patterns_tried");
                ck.res.count(&format!("invalid_{kind}_tried"));
                ck.res.count("decode_path_executions");
                if nontrivial {
                    ck.res.note_nontrivial(hash64(format!("{:?}{:?}", e.ty, cb).as_bytes()));
                }
                match &obs.outcome {
                    o if o.reverted() => ck.res.count("invalid_patterns_reverted"),
                    Outcome::VmError(err) => ck.res.inconclusive(format!("VM refused a run: {err}")),
                    _ => {
                        ck.violation(
                            format!("invalid-{kind}-accepted:{route}:{cls}:{}", path_class(&e.ty, &c.path)),
                            format!("[{}] {} decoded from {} (invalid {kind} pattern {} at offset {} = {}) without revert: {}", profile.name(), e.ty.sway(), hex::encode(&cb), hex::encode(&c.bytes), c.off, c.path, obs.short()),
                            json!({"mode": mode_name(m), "type": e.ty.sway(), "entry": i}),
                        );
                    }
                }
            }
        }
        // every bit pattern of a total type decodes and re-encodes to itself
        for img in &e.random {
            let mut rest: &[u8] = img;
            let Some(v) = decode_total(&e.ty, &mut rest) else { continue };
            let out_v = Val::Variant(i, Box::new(v.clone()));
            let mut via_carrier = (i as u64).to_be_bytes().to_vec();
            via_carrier.extend_from_slice(img);
            let raw_bytes = canon_bytes(&in_t, &Val::Variant(k, Box::new(Val::Blob(img.clone())))).unwrap();
            for (m, tail) in [(M_DECX, &raw_bytes), (M_ECHOX, &via_carrier)] {
                let obs = run_script(code, &data(sel(i, m, 0), tail));
                ck.res.evaluations += 1;
                ck.res.count("random_images_decoded");
                ck.res.count("decode_path_executions");
                if dec_trivial {
                    ck.res.count("random_images_decoded_trivially");
                }
                if nontrivial {
                    ck.res.note_nontrivial(case_hash(&e.ty, &v));
                }
                let mode = mode_name(m);
                match &obs.outcome {
                    Outcome::ReturnData(d) => {
                        ck.compare("return", mode, profile, &out_t, &out_v, &pt_out, d, 1);
                    }
                    Outcome::VmError(err) => ck.res.inconclusive(format!("VM refused a run: {err}")),
                    o => ck.violation(revert_sig(mode, &e.ty, &v, o), format!("[{}] {} from the bytes {}: {}", profile.name(), e.ty.sway(), hex::encode(img), obs.short()), json!({"mode": mode, "type": e.ty.sway()})),
                }
            }
        }
    }
}

fn check_mono(ck: &mut Checker, spec: &Spec, code: &[u8], abi: &AbiView, profile: Profile) {
    let ret_t = mono_ret_ty(spec);
    let n = spec.entries.len();
    let combos = spec.entries.iter().map(|e| e.vals.len()).max().unwrap_or(0);
    let nontrivial = spec.entries.iter().any(|e| e.ty.depth() >= 2);
    let all_ty = mono_args_ty(spec);
    let expect_run = |ck: &mut Checker, vals: &[Val], data: &[u8], mode: &str| {
        let obs = run_script(code, data);
        ck.res.evaluations += 1;
        ck.res.count("runs_mono");
        ck.res.count("decode_path_executions");
        let ret_v = if n == 1 { vals[0].clone() } else { Val::Seq(vals.to_vec()) };
        match &obs.outcome {
            Outcome::ReturnData(d) => {
                if ck.compare("return", mode, profile, &ret_t, &ret_v, &abi.output, d, 0) {
                    ck.res.count("returns_equal");
                }
            }
            Outcome::VmError(err) => {
                ck.res.inconclusive(format!("VM refused a run: {err}"));
                return;
            }
            o => {
                ck.violation(revert_sig(mode, &all_ty, &Val::Seq(vals.to_vec()), o), format!("[{}] main({}) on {}: {}", profile.name(), all_ty.sway(), hex::encode(data), obs.short()), json!({"mode": mode, "type": all_ty.sway()}));
                return;
            }
        }
        if obs.logs.len() != 2 + n {
            ck.violation(format!("extra-logs:{mode}:{}", shape_sig(&ret_t)), format!("[{}] {} log receipts, expected {}: {}", profile.name(), obs.logs.len(), 2 + n, obs.short()), json!({"mode": mode}));
            return;
        }
        if obs.logs[0].1.as_slice() == [1u8] {
            ck.res.count("entry_decode_trivial_path");
        } else {
            ck.res.count("entry_decode_nontrivial_path");
        }
        if obs.logs[1].1.as_slice() == [1u8] {
            ck.res.count("entry_encode_trivial_path");
        } else {
            ck.res.count("entry_encode_nontrivial_path");
        }
        for (i, e) in spec.entries.iter().enumerate() {
            ck.check_log(mode, profile, abi, obs.logs.get(2 + i), &e.ty, &vals[i], &e.ty);
        }
    };
    for j in 0..combos {
        let vals: Vec<Val> = spec.entries.iter().map(|e| e.vals[j % e.vals.len()].clone()).collect();
        let mut data = vec![];
        let mut ok = true;
        for (i, e) in spec.entries.iter().enumerate() {
            let pt = abi.inputs.get(i).cloned().unwrap_or(Err("input missing in the JSON ABI".into()));
            match reference_bytes(&e.ty, &vals[i], &pt) {
                Ok(b) => data.extend_from_slice(&b),
                Err(RefErr::Shape(m)) => {
                    ck.violation(format!("json-abi-mismatch:input:{}", shape_sig(&e.ty)), format!("[{}] {m}", profile.name()), json!({"type": e.ty.sway()}));
                    ok = false;
                }
                Err(RefErr::Harness(m)) => {
                    ck.res.count("reference_unavailable");
                    ck.res.inconclusive(format!("reference codecs: {m}"));
                    ok = false;
                }
            }
            ck.res.count("values");
            if e.ty.depth() >= 2 {
                ck.res.note_nontrivial(case_hash(&e.ty, &vals[i]));
            }
        }
        if !ok {
            continue;
        }
        expect_run(ck, &vals, &data, "entry");
    }
    if !spec.c10 {
        return;
    }
    // corrupted script data must revert
    for (i, e) in spec.entries.iter().enumerate() {
        for c in &e.corrupt {
            let mut data = vec![];
            for (i2, e2) in spec.entries.iter().enumerate() {
                let v = if i2 == i { e2.vals.get(c.val) } else { e2.vals.first() };
                let Some(v) = v else { continue };
                let Ok(mut cb) = canon_bytes(&e2.ty, v) else { continue };
                if i2 == i && c.off + c.bytes.len() <= cb.len() {
                    cb[c.off..c.off + c.bytes.len()].copy_from_slice(&c.bytes);
                }
                data.extend_from_slice(&cb);
            }
            let kind = if c.kind == LeafKind::Bool { "bool" } else { "tag" };
            let obs = run_script(code, &data);
            ck.res.evaluations += 1;
            ck.res.count("invalid_patterns_tried");
            ck.res.count(&format!("invalid_{kind}_tried"));
            ck.res.count("decode_path_executions");
            if nontrivial {
                ck.res.note_nontrivial(hash64(format!("{:?}{:?}", all_ty, data).as_bytes()));
            }
            let dt = obs.logs.first().map(|l| l.1.as_slice() == [1u8]).unwrap_or(false);
            match &obs.outcome {
                o if o.reverted() => ck.res.count("invalid_patterns_reverted"),
                Outcome::VmError(err) => ck.res.inconclusive(format!("VM refused a run: {err}")),
                _ => ck.violation(
                    format!("invalid-{kind}-accepted:entry:{}:{}", if dt { "decode-trivial" } else { "decode-nontrivial" }, path_class(&e.ty, &c.path)),
                    format!("[{}] main({}) accepted script data {} (invalid {kind} pattern {} in argument {i} at {}): {}", profile.name(), all_ty.sway(), hex::encode(&data), hex::encode(&c.bytes), c.path, obs.short()),
                    json!({"mode": "entry", "type": all_ty.sway()}),
                ),
            }
        }
    }
    if spec.entries.iter().all(|e| e.ty.total()) {
        let rounds = spec.entries.iter().map(|e| e.random.len()).min().unwrap_or(0);
        for r in 0..rounds {
            let mut data = vec![];
            let mut vals = vec![];
            for e in &spec.entries {
                let mut rest: &[u8] = &e.random[r];
                if let Some(v) = decode_total(&e.ty, &mut rest) {
                    vals.push(v);
                    data.extend_from_slice(&e.random[r]);
                }
            }
            if vals.len() != n {
                continue;
            }
            ck.res.count("random_images_decoded");
            expect_run(ck, &vals, &data, "entry-random");
        }
    }
}

// ------------------------------------------------------------------------------------------
// triage tool: shrink a specification while it still shows a behaviour

fn simplify_ty(t: &Ty) -> Vec<Ty> {
    let mut out: Vec<Ty> = vec![];
    // hoist children
    for c in t.children() {
        if !c.zero_sized() {
            out.push(c.clone());
        }
    }
    let rebuild = |kids: Vec<Ty>| -> Option<Ty> {
        Some(match t {
            Ty::Array(_, n) => Ty::Array(Box::new(kids[0].clone()), *n),
            Ty::Option(_) => Ty::Option(Box::new(kids[0].clone())),
            Ty::Vec(_) => Ty::Vec(Box::new(kids[0].clone())),
            Ty::TrivialEnum(_) => Ty::TrivialEnum(Box::new(kids[0].clone())),
            Ty::Result(..) => Ty::Result(Box::new(kids[0].clone()), Box::new(kids[1].clone())),
            Ty::Tuple(_) => Ty::Tuple(kids),
            Ty::Struct { name, generic, .. } => Ty::Struct { name: name.clone(), fields: kids, generic: *generic },
            Ty::Enum { name, generic, .. } => Ty::Enum { name: name.clone(), variants: kids, generic: *generic },
            _ => return None,
        })
    };
    let kids: Vec<Ty> = t.children().into_iter().cloned().collect();
    // drop one field / variant
    if matches!(t, Ty::Tuple(_) | Ty::Struct { .. } | Ty::Enum { .. }) && kids.len() > 1 {
        for i in 0..kids.len() {
            let mut k = kids.clone();
            k.remove(i);
            let r = match t {
                Ty::Tuple(_) => Ty::Tuple(k),
                Ty::Struct { name, generic, .. } => Ty::Struct { name: name.clone(), fields: k, generic: generic.and_then(|g| if g == i { None } else if g > i { Some(g - 1) } else { Some(g) }) },
                Ty::Enum { name, generic, .. } => Ty::Enum { name: name.clone(), variants: k, generic: generic.and_then(|g| if g == i { None } else if g > i { Some(g - 1) } else { Some(g) }) },
                _ => unreachable!(),
            };
            out.push(r);
        }
    }
    if let Ty::Struct { name, fields, generic: Some(_) } = t {
        out.push(Ty::Struct { name: name.clone(), fields: fields.clone(), generic: None });
    }
    if let Ty::Enum { name, variants, generic: Some(_) } = t {
        out.push(Ty::Enum { name: name.clone(), variants: variants.clone(), generic: None });
    }
    if let Ty::Array(e, n) = t {
        if *n > 1 {
            out.push(Ty::Array(e.clone(), 1));
        }
    }
    // simplify one child in place
    for i in 0..kids.len() {
        let mut alts = simplify_ty(&kids[i]);
        if !matches!(kids[i], Ty::U64) && kids[i].children().is_empty() {
            alts.push(Ty::U64);
        }
        for a in alts {
            if matches!(t, Ty::Array(..) | Ty::Vec(_)) && a.zero_sized() {
                continue;
            }
            if matches!(t, Ty::TrivialEnum(_)) && !matches!(a, Ty::Enum { .. }) {
                continue;
            }
            let mut k = kids.clone();
            k[i] = a;
            if let Some(r) = rebuild(k) {
                out.push(r);
            }
        }
    }
    out
}

fn respec_entry(ty: Ty, c10: bool, seed: u64) -> Entry {
    let mut rng = rng_for(seed, 77, 0);
    let mut g = Gen { rng: &mut rng, bias: Bias::Uniform, next_name: 1000, allow_trivial_wrappers: false };
    let vals = g.vals(&ty, 3);
    let mut corrupt = vec![];
    let mut random = vec![];
    if c10 {
        for (vi, v) in vals.iter().enumerate() {
            if let Ok(c) = canon(&ty, v) {
                for l in c.leaves.iter().filter(|l| !l.deferred) {
                    if let Some(bytes) = invalid_patterns(&mut rng, l.kind) {
                        corrupt.push(Corrupt { val: vi, off: l.off, bytes, kind: l.kind, path: l.path.clone() });
                    }
                }
            }
        }
        if ty.total() {
            let n = canon_bytes(&ty, &vals[0]).map(|b| b.len()).unwrap_or(0);
            random.push((0..n).map(|i| (i * 37 + 11) as u8).collect());
        }
    }
    Entry { ty, vals, corrupt, random }
}

pub fn reduce_spec(spec: Spec, interesting: &mut dyn FnMut(&Spec) -> bool) -> Spec {
    let mut cur = spec;
    let mut progress = true;
    let mut budget = 400;
    while progress && budget > 0 {
        progress = false;
        let mut cands: Vec<Spec> = vec![];
        for i in 0..cur.entries.len() {
            if cur.entries.len() > 1 {
                let mut s = cur.clone();
                s.entries.remove(i);
                cands.push(s);
            }
        }
        if !cur.mono && cur.entries.len() == 1 {
            let mut s = cur.clone();
            s.mono = true;
            cands.push(s);
        }
        for i in 0..cur.entries.len() {
            for j in 0..cur.entries[i].vals.len() {
                if cur.entries[i].vals.len() > 1 {
                    let mut s = cur.clone();
                    s.entries[i].vals.remove(j);
                    s.entries[i].corrupt.retain(|c| c.val != j);
                    for c in s.entries[i].corrupt.iter_mut() {
                        if c.val > j {
                            c.val -= 1;
                        }
                    }
                    cands.push(s);
                }
            }
            for j in 0..cur.entries[i].corrupt.len() {
                let mut s = cur.clone();
                s.entries[i].corrupt.remove(j);
                cands.push(s);
            }
            for t in simplify_ty(&cur.entries[i].ty) {
                if t.zero_sized() {
                    continue;
                }
                for seed in 0..2 {
                    let mut s = cur.clone();
                    s.entries[i] = respec_entry(t.clone(), cur.c10, seed);
                    cands.push(s);
                }
            }
        }
        for s in cands {
            if budget == 0 {
                break;
            }
            budget -= 1;
            if interesting(&s) {
                cur = s;
                progress = true;
                break;
            }
        }
    }
    cur
}
