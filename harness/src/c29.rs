//! C29: unit tests run isolated and report exactly their outcome.
//!
//! Generated test suites (std-less library, std library / script / predicate, contract with
//! storage) whose `#[test]` functions have an outcome KNOWN BY CONSTRUCTION (terminal state and
//! the exact sequence of logged values), crossed with every declared expectation. The real
//! forc-test flow (`forc_pkg::build_with_options(tests)` -> `BuiltTests::from_built` ->
//! `BuiltTests::run`, exactly what `forc_test::build` + `run` do) is executed with 1 and N
//! runners, unfiltered and through filters; an oracle compares per test
//!   * `TestResult::passed()` with (ground truth x expectation),
//!   * `TestResult::state` with the constructed terminal state,
//!   * the logged values with the constructed sequence (own unique ids only; storage reads give
//!     the declared initialisers; read-back of own writes),
//!   * the set of executed tests with the filter's meaning, and filtered == full observations.
use crate::common::*;
use crate::engine::{self, Profile};
use crate::{Plan, Prop};
use forc_pkg::{BuildOpts, BuildPlan, Built, BuiltPackage, PkgOpts};
use rand::rngs::StdRng;
use rand::seq::SliceRandom;
use rand::Rng;
use serde::{Deserialize, Serialize};
use serde_json::{json, Value};
use std::collections::{BTreeMap, BTreeSet};
use std::panic::AssertUnwindSafe;
use std::path::Path;
use std::sync::Arc;

pub static META: PropertyMeta = PropertyMeta {
    id: "C29",
    level: "exploration",
    rule: "generated packages (std-less library; library / script / predicate with std; contract with storage fields, StorageVec and StorageMap) of 5-30 #[test] functions (some in a sub-module) whose terminal state and logged values are known by construction; every test is declared with one of: no expectation, should_revert, should_revert = \"<matching code>\", should_revert = \"<other code>\"; each suite is built once per profile with the real forc test build and run with 1 runner, with N runners and through 4-7 filters (exact name that is a prefix of another name, substring, part of a name as exact phrase, shared words, no match); an evaluation = one (suite, profile); non-trivial = suite with >= 3 different outcome kinds whose full run was checked; distinct = hash of the package source",
    assumptions: &[
        "fuel-vm 0.66 is the trusted execution substrate (a VM panic ends the script with ProgramState::Revert(0), which forc test reports as a revert with code 0)",
        "asm blocks and #[inline(never)] functions are opaque to the optimiser (used to hide the operands of arithmetic that must panic at run time)",
    ],
    floor_evaluations: 20,
    floor_nontrivial: 10,
    required_counters: &[
        "cell_ret_none", "cell_ret_any", "cell_ret_mismatch",
        "cell_revert_none", "cell_revert_any", "cell_revert_match", "cell_revert_mismatch",
        "cell_assert_none", "cell_assert_any", "cell_assert_match", "cell_assert_mismatch",
        "cell_require_none", "cell_require_any", "cell_require_match", "cell_require_mismatch",
        "cell_asserteq_none", "cell_asserteq_any", "cell_asserteq_match", "cell_asserteq_mismatch",
        "cell_panic_none", "cell_panic_any", "cell_panic_match", "cell_panic_mismatch",
        "storage_writing_tests_checked", "initialiser_reads_checked", "runs_with_1_runner", "runs_with_n_runners",
        "filtered_runs", "filtered_tests_compared_with_full_run", "log_values_checked",
        "suites_contract", "suites_stdless_library", "suites_std_noncontract", "profile_debug", "profile_release",
    ],
};

pub static PROP: Prop = Prop {
    meta: &META,
    plan: |t| {
        // The per-case watchdog (60 s by default) exists for inputs on which the compiler does not
        // terminate. A suite here is one std build plus ~8 runs; on a machine shared with other
        // builds one phase can take longer than that, so the limit is raised for the shard
        // processes (they inherit the environment) and re-armed per phase (see `Rearm`).
        if std::env::var("SWVERIF_CASE_WATCHDOG_S").is_err() {
            std::env::set_var("SWVERIF_CASE_WATCHDOG_S", "300");
        }
        Plan { nshards: 16, budget_s: t.pick(50.0, 1000.0), mem_gib: 8 }
    },
    shard,
    replay,
    extra: crate::no_extra,
    subcommand,
};

// ------------------------------------------------------------------------------------------
// Suite model

const SIG_REQUIRE: u64 = 0xffff_ffff_ffff_0000;
const SIG_ASSERT_EQ: u64 = 0xffff_ffff_ffff_0003;
const SIG_ASSERT: u64 = 0xffff_ffff_ffff_0004;
const SIG_ASSERT_NE: u64 = 0xffff_ffff_ffff_0005;

#[derive(Clone, Copy, Debug, PartialEq, Eq, PartialOrd, Ord, Serialize, Deserialize)]
enum Kind {
    Ret,
    Revert,
    Assert,
    Require,
    AssertEq,
    Panic,
}

impl Kind {
    fn name(self) -> &'static str {
        match self {
            Kind::Ret => "ret",
            Kind::Revert => "revert",
            Kind::Assert => "assert",
            Kind::Require => "require",
            Kind::AssertEq => "asserteq",
            Kind::Panic => "panic",
        }
    }
}

#[derive(Clone, Copy, Debug, PartialEq, Eq, Serialize, Deserialize)]
enum Expect {
    None,
    Any,
    /// should_revert = "<code>"; `matching` is by construction
    Code(u64),
}

#[derive(Clone, Copy, Debug, PartialEq, Eq)]
enum ExpClass {
    None,
    Any,
    Match,
    Mismatch,
}

impl ExpClass {
    fn name(self) -> &'static str {
        match self {
            ExpClass::None => "none",
            ExpClass::Any => "any",
            ExpClass::Match => "match",
            ExpClass::Mismatch => "mismatch",
        }
    }
}

#[derive(Clone, Debug, Serialize, Deserialize)]
struct TestSpec {
    name: String,
    kind: Kind,
    /// terminal revert code (None = returns normally); a VM panic is Some(0)
    code: Option<u64>,
    expect: Expect,
    /// values logged by this test, in order
    logs: Vec<u64>,
    /// number of leading log values that are reads of declared storage initialisers
    init_reads: u64,
    writes_storage: bool,
    in_submodule: bool,
}

impl TestSpec {
    fn should_pass(&self) -> bool {
        oracle_pass(self.code, self.expect)
    }
    fn exp_class(&self) -> ExpClass {
        match self.expect {
            Expect::None => ExpClass::None,
            Expect::Any => ExpClass::Any,
            Expect::Code(c) => {
                if self.code == Some(c) {
                    ExpClass::Match
                } else {
                    ExpClass::Mismatch
                }
            }
        }
    }
}

/// The property's definition of "passed": execution matches the declared expectation.
fn oracle_pass(code: Option<u64>, expect: Expect) -> bool {
    match (expect, code) {
        (Expect::None, None) => true,
        (Expect::None, Some(_)) => false,
        (Expect::Any, c) => c.is_some(),
        (Expect::Code(want), Some(got)) => want == got,
        (Expect::Code(_), None) => false,
    }
}

#[derive(Clone, Copy, Debug, PartialEq, Eq, Serialize, Deserialize)]
enum PkgKind {
    StdlessLibrary,
    Library,
    Script,
    Predicate,
    Contract,
}

impl PkgKind {
    fn name(self) -> &'static str {
        match self {
            PkgKind::StdlessLibrary => "stdless_library",
            PkgKind::Library => "library",
            PkgKind::Script => "script",
            PkgKind::Predicate => "predicate",
            PkgKind::Contract => "contract",
        }
    }
    fn with_std(self) -> bool {
        self != PkgKind::StdlessLibrary
    }
}

#[derive(Clone, Debug, Serialize, Deserialize)]
struct Suite {
    pkg: PkgKind,
    main_src: String,
    /// (file name under src/, content)
    sub_src: Option<(String, String)>,
    tests: Vec<TestSpec>,
    /// number of runners of the parallel run
    n_runners: usize,
    /// (phrase, exact)
    filters: Vec<(String, bool)>,
}

impl Suite {
    fn hash(&self) -> u64 {
        let mut s = self.main_src.clone();
        if let Some((_, b)) = &self.sub_src {
            s.push_str(b);
        }
        hash64(s.as_bytes())
    }
    fn kinds(&self) -> usize {
        self.tests.iter().map(|t| t.kind).collect::<BTreeSet<_>>().len()
    }
}

// ------------------------------------------------------------------------------------------
// Generator

struct Ids {
    tag: u64,
    test: u64,
    seq: u64,
}

impl Ids {
    /// unique per (suite, test, seq); never collides with the initialisers (test = 0xfff)
    fn next(&mut self) -> u64 {
        let v = 0x5a00_0000_0000_0000u64 | (self.tag << 32) | (self.test << 16) | self.seq;
        self.seq += 1;
        v
    }
    /// reserve n consecutive ids
    fn next_n(&mut self, n: u64) -> u64 {
        let v = self.next();
        self.seq += n.saturating_sub(1);
        v
    }
}

fn init_value(tag: u64, which: u64) -> u64 {
    0x5a00_0000_0000_0000u64 | (tag << 32) | (0xfff << 16) | which
}

const MISSING: u64 = 0x0dead_0000_0000_0001;
const SHARED_KEY: u64 = 77;

struct Body {
    src: String,
    logs: Vec<u64>,
    tmp: u32,
    std: bool,
    /// predicates may not contain LOG/LOGD: nothing is logged
    mute: bool,
    contract: bool,
    writes: bool,
}

impl Body {
    fn line(&mut self, s: &str) {
        self.src.push_str("    ");
        self.src.push_str(s);
        self.src.push('\n');
    }
    fn tmp(&mut self) -> String {
        self.tmp += 1;
        format!("x{}", self.tmp)
    }
    fn log_expr(&self, e: &str) -> String {
        if self.mute {
            format!("mute({e});")
        } else if self.std {
            format!("log({e});")
        } else {
            format!("lg({e});")
        }
    }
    fn emit_log(&mut self, v: u64) {
        let l = self.log_expr(&format!("{v}u64"));
        self.line(&l);
        self.logs.push(v);
    }
    fn add(&self, a: &str, b: &str) -> String {
        if self.std {
            format!("{a} + {b}")
        } else {
            format!("__add({a}, {b})")
        }
    }
    fn eq(&self, a: &str, b: &str) -> String {
        if self.std {
            format!("{a} == {b}")
        } else {
            format!("__eq({a}, {b})")
        }
    }
    fn lt(&self, a: &str, b: &str) -> String {
        if self.std {
            format!("{a} < {b}")
        } else {
            format!("__lt({a}, {b})")
        }
    }

    /// a statement with known logs that does not end the test
    fn filler(&mut self, rng: &mut StdRng, ids: &mut Ids) {
        match rng.gen_range(0..6) {
            0 => {
                let v = ids.next();
                self.emit_log(v);
            }
            1 => {
                // sum of two hidden operands
                let v = ids.next();
                let b = rng.gen_range(1..1000u64);
                let a = v - b;
                let t = self.tmp();
                let e = self.add(&format!("opq({a}u64)"), &format!("opq({b}u64)"));
                self.line(&format!("let {t}: u64 = {e};"));
                let l = self.log_expr(&t);
                self.line(&l);
                self.logs.push(v);
            }
            2 => {
                // loop logging k consecutive ids
                let k = rng.gen_range(1..=4u64);
                let base = ids.next_n(k);
                let i = self.tmp();
                self.line(&format!("let mut {i}: u64 = 0u64;"));
                let cond = self.lt(&i, &format!("opq({k}u64)"));
                self.line(&format!("while {cond} {{"));
                let sum = self.add(&format!("{base}u64"), &i);
                let l = self.log_expr(&sum);
                self.line(&format!("    {l}"));
                let inc = self.add(&i, "1u64");
                self.line(&format!("    {i} = {inc};"));
                self.line("}");
                for j in 0..k {
                    self.logs.push(base + j);
                }
            }
            3 => {
                // branch on a hidden value
                let taken = ids.next();
                let not_taken = ids.next();
                let x = rng.gen_range(0..50u64);
                let same = rng.gen_bool(0.5);
                let y = if same { x } else { x + 1 };
                let cond = self.eq(&format!("opq({x}u64)"), &format!("{y}u64"));
                let (then_v, else_v) = if same { (taken, not_taken) } else { (not_taken, taken) };
                self.line(&format!("if {cond} {{"));
                let l1 = self.log_expr(&format!("{then_v}u64"));
                self.line(&format!("    {l1}"));
                self.line("} else {");
                let l2 = self.log_expr(&format!("{else_v}u64"));
                self.line(&format!("    {l2}"));
                self.line("}");
                self.logs.push(taken);
            }
            4 => {
                // through a helper function
                let v = ids.next();
                self.line(&format!("emit({v}u64);"));
                self.logs.push(v);
            }
            _ => {
                if self.contract {
                    self.storage_op(rng, ids);
                } else if self.std && !self.mute {
                    // passing checks that must not end the test
                    let v = ids.next();
                    match rng.gen_range(0..3) {
                        0 => self.line("assert(opq(3u64) == 3u64);"),
                        1 => self.line(&format!("require(opq(1u64) == 1u64, {v}u64);")),
                        _ => self.line("assert_eq(opq(7u64), 7u64);"),
                    }
                    self.emit_log(v);
                } else {
                    let v = ids.next();
                    self.emit_log(v);
                }
            }
        }
    }

    /// write a unique value and read it back (the read-back shows that the write took effect)
    fn storage_op(&mut self, rng: &mut StdRng, ids: &mut Ids) {
        self.writes = true;
        let v = ids.next();
        match rng.gen_range(0..5) {
            0 => {
                // set_a logs the value it writes from inside the contract
                self.line(&format!("c.set_a({v}u64);"));
                self.logs.push(v);
                self.line("log(c.get_a());");
                self.logs.push(v);
            }
            1 => {
                self.line(&format!("c.set_b({v}u64);"));
                self.line("log(c.get_b());");
                self.logs.push(v);
            }
            2 => {
                self.line(&format!("c.push_v({v}u64);"));
                self.line("log(c.get_v(c.len_v() - 1u64));");
                self.logs.push(v);
            }
            3 => {
                self.line(&format!("c.ins_m({SHARED_KEY}u64, {v}u64);"));
                self.line(&format!("log(c.get_m({SHARED_KEY}u64));"));
                self.logs.push(v);
            }
            _ => {
                let w = ids.next();
                self.line(&format!("c.set_p({v}u64, {w}u64);"));
                self.line("log(c.get_px());");
                self.line("log(c.get_py());");
                self.logs.push(v);
                self.logs.push(w);
            }
        }
    }
}

/// a revert code with interesting shapes
fn gen_code(rng: &mut StdRng) -> u64 {
    match rng.gen_range(0..10) {
        0 => 0,
        1 => rng.gen_range(1..10),
        2 => 42,
        3 => u64::MAX,
        4 => SIG_ASSERT ^ (1 << rng.gen_range(0..64)),
        5 => [SIG_REQUIRE, SIG_ASSERT, SIG_ASSERT_EQ, SIG_ASSERT_NE][rng.gen_range(0..4)],
        6 => 1u64 << rng.gen_range(0..64),
        7 => rng.gen::<u32>() as u64,
        _ => rng.gen::<u64>(),
    }
}

fn mismatch_code(rng: &mut StdRng, actual: Option<u64>) -> u64 {
    let Some(c) = actual else {
        return gen_code(rng);
    };
    let cands = [c.wrapping_add(1), c.wrapping_sub(1), c ^ (1 << rng.gen_range(0..64)), c & 0xffff_ffff, c >> 32, 0, u64::MAX, c.swap_bytes(), gen_code(rng), SIG_ASSERT, SIG_REQUIRE];
    let ok: Vec<u64> = cands.iter().copied().filter(|x| *x != c).collect();
    ok[rng.gen_range(0..ok.len())]
}

fn gen_test(rng: &mut StdRng, pkg: PkgKind, name: String, idx: u64, tag: u64, kind: Kind, exp: ExpClass, in_submodule: bool) -> (TestSpec, String) {
    let std = pkg.with_std();
    let contract = pkg == PkgKind::Contract && !in_submodule;
    let mut ids = Ids { tag, test: idx, seq: 0 };
    let mute = pkg == PkgKind::Predicate;
    let mut b = Body { src: String::new(), logs: vec![], tmp: 0, std, mute, contract, writes: false };
    let mut init_reads = 0;
    if contract {
        // every contract test first logs what it reads: must be the declared initialisers
        b.line("let c = abi(Iso, CONTRACT_ID);");
        b.line("log(c.get_a());");
        b.line("log(c.get_b());");
        b.line("log(c.len_v());");
        b.line(&format!("log(c.get_m({SHARED_KEY}u64));"));
        b.line("log(c.get_px());");
        b.line("log(c.get_py());");
        b.logs.extend([init_value(tag, 1), init_value(tag, 2), 0, MISSING, init_value(tag, 3), init_value(tag, 4)]);
        init_reads = 6;
        if rng.gen_bool(0.75) {
            b.storage_op(rng, &mut ids);
        }
    }
    for _ in 0..rng.gen_range(0..=3) {
        b.filler(rng, &mut ids);
    }
    let code: Option<u64>;
    // whether the statements after the terminal one are syntactically reachable
    let mut add_dead = true;
    match kind {
        Kind::Ret => {
            code = None;
            add_dead = false;
            let v = ids.next();
            b.emit_log(v);
        }
        Kind::Revert => {
            let c = gen_code(rng);
            code = Some(c);
            let nforms = if contract { 7 } else { 5 };
            match rng.gen_range(0..nforms) {
                0 => {
                    b.line(&if std { format!("revert({c}u64);") } else { format!("__revert({c}u64);") });
                    add_dead = false;
                }
                1 => b.line(&format!("bail({c}u64);")),
                2 => {
                    let cond = b.eq("opq(1u64)", "1u64");
                    b.line(&format!("if {cond} {{"));
                    b.line(&if std { format!("    revert({c}u64);") } else { format!("    __revert({c}u64);") });
                    b.line("}");
                }
                3 => {
                    // revert from inside a loop
                    let i = b.tmp();
                    b.line(&format!("let mut {i}: u64 = 0u64;"));
                    let cond = b.lt(&i, "opq(5u64)");
                    b.line(&format!("while {cond} {{"));
                    let at = b.eq(&i, "2u64");
                    b.line(&format!("    if {at} {{ bail({c}u64); }}"));
                    let inc = b.add(&i, "1u64");
                    b.line(&format!("    {i} = {inc};"));
                    b.line("}");
                }
                4 => {
                    b.line(&format!("__revert({c}u64);"));
                    add_dead = false;
                }
                5 => b.line(&format!("c.boom({c}u64);")),
                _ => {
                    // a storage write followed by a revert inside the contract
                    let v = ids.next();
                    b.writes = true;
                    b.line(&format!("c.set_a_then_boom({v}u64, {c}u64);"));
                    b.logs.push(v);
                }
            }
        }
        Kind::Assert => {
            code = Some(SIG_ASSERT);
            let a = rng.gen_range(0..100u64);
            match rng.gen_range(0..2) {
                0 => b.line(&format!("assert(opq({a}u64) == {}u64);", a + 1)),
                _ => b.line(&format!("assert(opq({a}u64) != {a}u64);")),
            }
        }
        Kind::Require => {
            code = Some(SIG_REQUIRE);
            let v = ids.next();
            let a = rng.gen_range(0..100u64);
            b.line(&format!("require(opq({a}u64) > {a}u64, {v}u64);"));
            b.logs.push(v);
        }
        Kind::AssertEq => {
            if rng.gen_bool(0.7) {
                code = Some(SIG_ASSERT_EQ);
                let v = ids.next();
                let w = ids.next();
                b.line(&format!("assert_eq(opq({v}u64), {w}u64);"));
                b.logs.push(v);
                b.logs.push(w);
            } else {
                code = Some(SIG_ASSERT_NE);
                let v = ids.next();
                b.line(&format!("assert_ne(opq({v}u64), {v}u64);"));
                b.logs.push(v);
                b.logs.push(v);
            }
        }
        Kind::Panic => {
            code = Some(0);
            let t = b.tmp();
            let a = rng.gen_range(1..1_000_000u64);
            let nforms = if contract { 7 } else { 5 };
            let e = match (rng.gen_range(0..nforms), std) {
                (0, true) => format!("opq(18446744073709551615u64) + opq({a}u64)"),
                (0, false) => format!("__add(opq(18446744073709551615u64), opq({a}u64))"),
                (1, true) => format!("opq({a}u64) / opq(0u64)"),
                (1, false) => format!("__div(opq({a}u64), opq(0u64))"),
                (2, true) => format!("opq({a}u64) - opq({}u64)", a + 1),
                (2, false) => format!("__sub(opq({a}u64), opq({}u64))", a + 1),
                (3, true) => format!("opq(9223372036854775808u64) * opq({}u64)", 2 + a % 5),
                (3, false) => format!("__mul(opq(9223372036854775808u64), opq({}u64))", 2 + a % 5),
                (4, true) => format!("opq({a}u64) % opq(0u64)"),
                (4, false) => format!("__mod(opq({a}u64), opq(0u64))"),
                // the divisor comes from a storage read inside the contract
                (5, _) => format!("c.div_by_z({a}u64)"),
                _ => format!("{a}u64 / c.get_z()"),
            };
            b.line(&format!("let {t}: u64 = {e};"));
            // the result is used, so the operation cannot be removed; never reached
            let l = b.log_expr(&t);
            b.line(&l);
            add_dead = false;
        }
    }
    if add_dead {
        // never reached
        let v = ids.next();
        let l = b.log_expr(&format!("{v}u64"));
        b.line(&l);
    }
    let expect = match exp {
        ExpClass::None => Expect::None,
        ExpClass::Any => Expect::Any,
        ExpClass::Match => Expect::Code(code.expect("match needs a revert")),
        ExpClass::Mismatch => Expect::Code(mismatch_code(rng, code)),
    };
    let attr = match expect {
        Expect::None => "#[test]".to_string(),
        Expect::Any => "#[test(should_revert)]".to_string(),
        Expect::Code(c) => format!("#[test(should_revert = \"{c}\")]"),
    };
    let src = format!("{attr}\nfn {name}() {{\n{}}}\n\n", b.src);
    if mute {
        b.logs.clear();
    }
    let spec = TestSpec { name, kind, code, expect, logs: b.logs, init_reads, writes_storage: b.writes, in_submodule };
    (spec, src)
}

fn helpers(std: bool, mute: bool) -> String {
    if mute {
        "#[inline(never)]\nfn opq(x: u64) -> u64 {\n    asm(r: x) { r: u64 }\n}\n\n#[inline(never)]\nfn mute(x: u64) {\n    let _ = opq(x);\n}\n\n#[inline(never)]\nfn emit(x: u64) {\n    mute(x);\n}\n\n#[inline(never)]\nfn bail(c: u64) {\n    revert(c);\n}\n\n".to_string()
    } else if std {
        "#[inline(never)]\nfn opq(x: u64) -> u64 {\n    asm(r: x) { r: u64 }\n}\n\n#[inline(never)]\nfn emit(x: u64) {\n    log(x);\n}\n\n#[inline(never)]\nfn bail(c: u64) {\n    revert(c);\n}\n\n".to_string()
    } else {
        "#[inline(never)]\nfn opq(x: u64) -> u64 {\n    asm(r: x) { r: u64 }\n}\n\nfn lg(x: u64) {\n    asm(r1: x) { log r1 zero zero zero; }\n}\n\n#[inline(never)]\nfn emit(x: u64) {\n    lg(x);\n}\n\n#[inline(never)]\nfn bail(c: u64) {\n    __revert(c);\n}\n\n".to_string()
    }
}

fn contract_prelude(tag: u64) -> String {
    let (a, b, px, py) = (init_value(tag, 1), init_value(tag, 2), init_value(tag, 3), init_value(tag, 4));
    format!(
        r#"contract;

use std::storage::storage_vec::*;
use std::hash::*;

struct Pair {{
    x: u64,
    y: u64,
}}

storage {{
    a: u64 = {a}u64,
    b: u64 = {b}u64,
    z: u64 = 0u64,
    p: Pair = Pair {{ x: {px}u64, y: {py}u64 }},
    v: StorageVec<u64> = StorageVec {{}},
    m: StorageMap<u64, u64> = StorageMap::<u64, u64> {{}},
}}

abi Iso {{
    #[storage(read)]
    fn get_a() -> u64;
    #[storage(read, write)]
    fn set_a(x: u64);
    #[storage(read)]
    fn get_b() -> u64;
    #[storage(write)]
    fn set_b(x: u64);
    #[storage(read)]
    fn get_z() -> u64;
    #[storage(read)]
    fn get_px() -> u64;
    #[storage(read)]
    fn get_py() -> u64;
    #[storage(write)]
    fn set_p(x: u64, y: u64);
    #[storage(read)]
    fn len_v() -> u64;
    #[storage(read)]
    fn get_v(i: u64) -> u64;
    #[storage(read, write)]
    fn push_v(x: u64);
    #[storage(read)]
    fn get_m(k: u64) -> u64;
    #[storage(read, write)]
    fn ins_m(k: u64, x: u64);
    fn boom(c: u64);
    #[storage(read, write)]
    fn set_a_then_boom(x: u64, c: u64);
    #[storage(read)]
    fn div_by_z(x: u64) -> u64;
}}

impl Iso for Contract {{
    #[storage(read)]
    fn get_a() -> u64 {{
        storage.a.read()
    }}
    #[storage(read, write)]
    fn set_a(x: u64) {{
        storage.a.write(x);
        log(storage.a.read());
    }}
    #[storage(read)]
    fn get_b() -> u64 {{
        storage.b.read()
    }}
    #[storage(write)]
    fn set_b(x: u64) {{
        storage.b.write(x);
    }}
    #[storage(read)]
    fn get_z() -> u64 {{
        storage.z.read()
    }}
    #[storage(read)]
    fn get_px() -> u64 {{
        storage.p.x.read()
    }}
    #[storage(read)]
    fn get_py() -> u64 {{
        storage.p.read().y
    }}
    #[storage(write)]
    fn set_p(x: u64, y: u64) {{
        storage.p.write(Pair {{ x: x, y: y }});
    }}
    #[storage(read)]
    fn len_v() -> u64 {{
        storage.v.len()
    }}
    #[storage(read)]
    fn get_v(i: u64) -> u64 {{
        match storage.v.get(i) {{
            Some(k) => k.read(),
            None => {MISSING}u64,
        }}
    }}
    #[storage(read, write)]
    fn push_v(x: u64) {{
        storage.v.push(x);
    }}
    #[storage(read)]
    fn get_m(k: u64) -> u64 {{
        storage.m.get(k).try_read().unwrap_or({MISSING}u64)
    }}
    #[storage(read, write)]
    fn ins_m(k: u64, x: u64) {{
        storage.m.insert(k, x);
    }}
    fn boom(c: u64) {{
        revert(c);
    }}
    #[storage(read, write)]
    fn set_a_then_boom(x: u64, c: u64) {{
        storage.a.write(x);
        log(storage.a.read());
        revert(c);
    }}
    #[storage(read)]
    fn div_by_z(x: u64) -> u64 {{
        x / storage.z.read()
    }}
}}

"#
    )
}

const WORDS: [&str; 10] = ["t", "foo", "bar", "foo_bar", "ab", "abc", "check", "t_foo", "it", "case"];

fn gen_suite(rng: &mut StdRng, pkg: PkgKind) -> Suite {
    let tag = rng.gen_range(1..0xffffu64);
    let n = match rng.gen_range(0..10) {
        0..=3 => rng.gen_range(5..=10),
        4..=7 => rng.gen_range(10..=23),
        _ => rng.gen_range(23..=30),
    };
    // the (kind, expectation) cells: a shuffled deck so that every suite spreads over the cells
    let kinds: &[Kind] = if pkg == PkgKind::Predicate {
        &[Kind::Ret, Kind::Revert, Kind::Assert, Kind::Panic]
    } else if pkg.with_std() { &[Kind::Ret, Kind::Revert, Kind::Assert, Kind::Require, Kind::AssertEq, Kind::Panic] } else { &[Kind::Ret, Kind::Revert, Kind::Panic] };
    let mut deck: Vec<(Kind, ExpClass)> = vec![];
    for k in kinds {
        for e in [ExpClass::None, ExpClass::Any, ExpClass::Match, ExpClass::Mismatch] {
            if !(*k == Kind::Ret && e == ExpClass::Match) {
                deck.push((*k, e));
            }
        }
    }
    deck.shuffle(rng);
    let with_sub = rng.gen_bool(0.35);
    let n_sub = if with_sub { rng.gen_range(1..=3usize).min(n - 1) } else { 0 };
    // names: words shared between tests and numeric suffixes that are prefixes of each other, so
    // that substring and exact filters select different sets
    let mut names: Vec<String> = vec![];
    let mut used = BTreeSet::new();
    while names.len() < n {
        let w = WORDS[rng.gen_range(0..WORDS.len())];
        let num = match rng.gen_range(0..3) {
            0 => rng.gen_range(0..4u32),
            1 => rng.gen_range(0..40),
            _ => rng.gen_range(0..400),
        };
        let name = if rng.gen_bool(0.15) { format!("{w}_{num}_{}", WORDS[rng.gen_range(0..WORDS.len())]) } else { format!("{w}_{num}") };
        if used.insert(name.clone()) {
            names.push(name);
        }
    }
    // always one name that is a proper prefix of another one
    let longer = format!("{}{}", names[0], rng.gen_range(0..10u32));
    if !used.contains(&longer) {
        names[1] = longer;
    }
    let mut main = String::new();
    let mut sub = String::new();
    let mut tests = vec![];
    for (i, name) in names.iter().enumerate() {
        let (kind, exp) = deck[i % deck.len()];
        let in_sub = i >= n - n_sub;
        let (spec, src) = gen_test(rng, pkg, name.clone(), i as u64 + 1, tag, kind, exp, in_sub);
        if in_sub {
            sub.push_str(&src);
        } else {
            main.push_str(&src);
        }
        tests.push(spec);
    }
    let std = pkg.with_std();
    let header = match pkg {
        PkgKind::StdlessLibrary | PkgKind::Library => "library;\n\n".to_string(),
        PkgKind::Script => "script;\n\n".to_string(),
        PkgKind::Predicate => "predicate;\n\n".to_string(),
        PkgKind::Contract => contract_prelude(tag),
    };
    let mut main_src = String::new();
    if with_sub {
        // `mod` must come right after the program kind
        let (first, rest) = header.split_once('\n').unwrap();
        main_src.push_str(first);
        main_src.push_str("\n\nmod inner;\n");
        main_src.push_str(rest);
    } else {
        main_src.push_str(&header);
    }
    match pkg {
        PkgKind::Script => main_src.push_str("fn main() {}\n\n"),
        PkgKind::Predicate => main_src.push_str("fn main() -> bool {\n    true\n}\n\n"),
        _ => {}
    }
    main_src.push_str(&helpers(std, pkg == PkgKind::Predicate));
    // a non-test function between the tests: must never be reported as a test
    main_src.push_str("fn not_a_test() -> u64 {\n    opq(5u64)\n}\n\n");
    main_src.push_str(&main);
    let sub_src = if with_sub { Some(("inner.sw".to_string(), format!("library;\n\n{}{}", helpers(std, pkg == PkgKind::Predicate), sub))) } else { None };

    // filters
    // fixed: the exact name that is a prefix of another name, the same as a substring, and an
    // exact phrase that is only part of a name (selects nothing)
    let mut filters: Vec<(String, bool)> = vec![(names[0].clone(), true), (names[0].clone(), false), (names[1][1..].to_string(), true)];
    filters.rotate_left(rng.gen_range(0..3));
    let nf = rng.gen_range(1..=4);
    for _ in 0..nf {
        let t = &names[rng.gen_range(0..names.len())];
        let f = match rng.gen_range(0..10) {
            0 | 1 => (t.clone(), true),
            2 | 3 => (t.clone(), false),
            4 | 5 => {
                // a substring of a name
                let a = rng.gen_range(0..t.len());
                let b = rng.gen_range(a + 1..=t.len());
                (t[a..b].to_string(), rng.gen_bool(0.1))
            }
            6 | 7 => (WORDS[rng.gen_range(0..WORDS.len())].to_string(), false),
            8 => (format!("_{}", rng.gen_range(0..10)), false),
            _ => ("no_such_test_zz".to_string(), rng.gen_bool(0.5)),
        };
        filters.push(f);
    }
    let n_runners = *[2usize, 3, 4, 8].choose(rng).unwrap();
    Suite { pkg, main_src, sub_src, tests, n_runners, filters }
}

// ------------------------------------------------------------------------------------------
// Running the real forc-test flow

#[derive(Clone, Debug, PartialEq, Eq)]
enum State {
    Return,
    Revert(u64),
    Other(String),
}

#[derive(Clone, Debug, PartialEq, Eq)]
struct Obs {
    name: String,
    passed: bool,
    state: State,
    /// logged u64 values; Err(description) for a log receipt that is not a u64 value
    logs: Vec<Result<u64, String>>,
}

struct BuiltSuite {
    plan: BuildPlan,
    built: Arc<BuiltPackage>,
}

fn write_suite(dir: &Path, s: &Suite) -> anyhow::Result<()> {
    let _ = std::fs::remove_dir_all(dir);
    engine::write_pkg(dir, "c29suite", &s.main_src, s.pkg.with_std())?;
    if let Some((f, body)) = &s.sub_src {
        std::fs::write(dir.join("src").join(f), body)?;
    }
    Ok(())
}

/// The two steps of `forc_test::build`, kept apart so that one build serves many runs.
fn build_suite(dir: &Path, profile: Profile) -> anyhow::Result<BuiltSuite> {
    let opts = forc_test::TestOpts {
        pkg: PkgOpts { path: Some(dir.to_string_lossy().to_string()), offline: true, terse: std::env::var("C29_VERBOSE").is_err(), ..Default::default() },
        release: profile == Profile::Release,
        build_profile: profile.name().to_string(),
        no_output: true,
        ..Default::default()
    };
    let build_opts: BuildOpts = opts.into();
    let plan = BuildPlan::from_pkg_opts(&build_opts.pkg)?;
    match forc_pkg::build_with_options(&build_opts, None)? {
        Built::Package(p) => Ok(BuiltSuite { plan, built: p }),
        Built::Workspace(_) => anyhow::bail!("unexpected workspace"),
    }
}

fn observe_results(tests: &[forc_test::TestResult]) -> Vec<Obs> {
    tests
        .iter()
        .map(|t| {
            let state = match t.state {
                fuel_vm::state::ProgramState::Return(_) | fuel_vm::state::ProgramState::ReturnData(_) => State::Return,
                fuel_vm::state::ProgramState::Revert(c) => State::Revert(c),
                ref other => State::Other(format!("{other:?}")),
            };
            let logs = t
                .logs
                .iter()
                .map(|r| match r {
                    fuel_tx::Receipt::Log { ra, .. } => Ok(*ra),
                    fuel_tx::Receipt::LogData { data, .. } => {
                        let d = data.as_ref().map(|d| d.to_vec()).unwrap_or_default();
                        match <[u8; 8]>::try_from(d.as_slice()) {
                            Ok(b) => Ok(u64::from_be_bytes(b)),
                            Err(_) => Err(format!("logdata:{}", hex::encode(&d))),
                        }
                    }
                    other => Err(format!("{other:?}")),
                })
                .collect();
            Obs { name: t.name.clone(), passed: t.passed(), state, logs }
        })
        .collect()
}

fn run_built(b: &BuiltSuite, runners: usize, filter: Option<(&str, bool)>) -> anyhow::Result<Vec<Obs>> {
    let tests = forc_test::BuiltTests::from_built(Built::Package(b.built.clone()), &b.plan)?;
    let gas = forc_test::GasCostsSource::BuiltIn.provide_gas_costs()?;
    let filter = filter.map(|(p, exact)| forc_test::TestFilter { filter_phrase: p, exact_match: exact });
    let tested = tests.run(forc_test::TestRunnerCount::Manual(runners.max(1)), filter, gas, forc_test::TestGasLimit::default())?;
    match tested {
        forc_test::Tested::Package(p) => Ok(observe_results(&p.tests)),
        forc_test::Tested::Workspace(_) => anyhow::bail!("unexpected workspace"),
    }
}

/// Observations through `engine::run_unit_tests` (builds again), in the same shape.
fn run_engine(dir: &Path, profile: Profile, runners: usize, filter: Option<(&str, bool)>) -> anyhow::Result<Vec<Obs>> {
    let run = engine::run_unit_tests(dir, profile, runners, filter)?;
    Ok(run
        .tests
        .iter()
        .map(|t| {
            let state = match &t.outcome {
                engine::Outcome::Return(_) | engine::Outcome::ReturnData(_) => State::Return,
                engine::Outcome::Revert(c) => State::Revert(*c),
                engine::Outcome::Panic(_) => State::Revert(0),
                engine::Outcome::VmError(e) => State::Other(e.clone()),
            };
            let logs = t.logs.iter().map(|(_, _, d)| <[u8; 8]>::try_from(d.as_slice()).map(u64::from_be_bytes).map_err(|_| format!("logdata:{}", hex::encode(d)))).collect();
            Obs { name: t.name.clone(), passed: t.passed, state, logs }
        })
        .collect())
}

// ------------------------------------------------------------------------------------------
// Oracle

fn replay_json(s: &Suite, profile: Profile, test: &str, run: &str) -> Value {
    json!({"suite": s, "profile": profile.name(), "test": test, "run": run, "main.sw": s.main_src, "inner.sw": s.sub_src.as_ref().map(|x| x.1.clone())})
}

/// One observed test against what the suite was constructed to do. Returns false on violation.
fn check_test(s: &Suite, spec: &TestSpec, o: &Obs, profile: Profile, run: &str, res: &mut ShardResult) -> bool {
    let cell = format!("{}x{}", spec.kind.name(), spec.exp_class().name());
    let where_ = format!("{} {} run={run} test={}", s.pkg.name(), profile.name(), spec.name);
    // terminal state
    let want_state = match spec.code {
        None => State::Return,
        Some(c) => State::Revert(c),
    };
    if o.state != want_state {
        res.violation(
            format!("wrong-terminal-state:{}:{}", s.pkg.name(), spec.kind.name()),
            format!("[{where_}] body constructed to end with {want_state:?} ended with {:?} (logs {:?})", o.state, short_logs(&o.logs)),
            replay_json(s, profile, &spec.name, run),
        );
        return false;
    }
    // logs: exactly the constructed sequence
    let want_logs: Vec<Result<u64, String>> = spec.logs.iter().map(|v| Ok(*v)).collect();
    if o.logs != want_logs {
        // classify: a value that belongs to another test / an initialiser that was overwritten
        let own: BTreeSet<u64> = spec.logs.iter().copied().collect();
        let mut foreign_of = None;
        for v in o.logs.iter().flatten() {
            if !own.contains(v) {
                if let Some(other) = s.tests.iter().find(|t| t.name != spec.name && t.logs[t.init_reads as usize..].contains(v)) {
                    foreign_of = Some(other.name.clone());
                    break;
                }
            }
        }
        let (sig, what) = match foreign_of {
            Some(other) => (format!("foreign-log-value:{}", s.pkg.name()), format!("observed a value that only test {other} writes or logs")),
            None => (format!("wrong-logs:{}:{}", s.pkg.name(), spec.kind.name()), "logs differ from the constructed sequence".to_string()),
        };
        res.violation(sig, format!("[{where_}] {what}: expected {:?} got {:?}", short_logs(&want_logs), short_logs(&o.logs)), replay_json(s, profile, &spec.name, run));
        return false;
    }
    // the verdict of forc test
    let want = spec.should_pass();
    if o.passed != want {
        res.violation(
            format!("wrong-verdict:{cell}"),
            format!("[{where_}] state {:?}, declared {:?}: forc test says passed={} but the expectation is {}", o.state, spec.expect, o.passed, if want { "met" } else { "not met" }),
            replay_json(s, profile, &spec.name, run),
        );
        return false;
    }
    true
}

fn short_logs(l: &[Result<u64, String>]) -> Vec<String> {
    l.iter()
        .map(|x| match x {
            Ok(v) => format!("{v:#x}"),
            Err(e) => e.chars().take(40).collect(),
        })
        .collect()
}

fn filter_matches(name: &str, phrase: &str, exact: bool) -> bool {
    if exact {
        name == phrase
    } else {
        name.contains(phrase)
    }
}

/// Check the set of tests of one run; returns the observations by name when the set is right.
fn check_set<'a>(s: &Suite, obs: &'a [Obs], filter: Option<(&str, bool)>, profile: Profile, run: &str, res: &mut ShardResult) -> Option<BTreeMap<&'a str, &'a Obs>> {
    let want: BTreeSet<&str> = s.tests.iter().filter(|t| filter.map(|(p, e)| filter_matches(&t.name, p, e)).unwrap_or(true)).map(|t| t.name.as_str()).collect();
    let mut got: BTreeMap<&str, &Obs> = BTreeMap::new();
    let mut dup = None;
    for o in obs {
        if got.insert(o.name.as_str(), o).is_some() {
            dup = Some(o.name.clone());
        }
    }
    let got_set: BTreeSet<&str> = got.keys().copied().collect();
    if dup.is_some() || got_set != want {
        let missing: Vec<&&str> = want.difference(&got_set).collect();
        let extra: Vec<&&str> = got_set.difference(&want).collect();
        let sig = if filter.is_some() { "filtered-run-wrong-test-set" } else { "full-run-wrong-test-set" };
        res.violation(
            format!("{sig}:{}", s.pkg.name()),
            format!("[{} {} run={run}] filter {filter:?}: missing {missing:?}, unexpected {extra:?}, duplicate {dup:?}", s.pkg.name(), profile.name()),
            replay_json(s, profile, "", run),
        );
        return None;
    }
    Some(got)
}

/// All runs of one suite in one profile.
fn check_suite(s: &Suite, profile: Profile, dir: &Path, thorough: bool, res: &mut ShardResult) {
    check_suite_w(s, profile, dir, thorough, res, &|_| {})
}

/// `rearm` is called before every phase (build, each run) with the results so far: the shard
/// loop re-arms the per-case watchdog there.
fn check_suite_w(s: &Suite, profile: Profile, dir: &Path, thorough: bool, res: &mut ShardResult, rearm: &dyn Fn(&ShardResult)) {
    res.evaluations += 1;
    rearm(res);
    if let Err(e) = write_suite(dir, s) {
        res.inconclusive(format!("cannot write package: {e}"));
        return;
    }
    let built = match catch(AssertUnwindSafe(|| build_suite(dir, profile))) {
        Ok(Ok(b)) => b,
        Ok(Err(e)) => {
            res.count("suites_rejected_by_compiler");
            res.inconclusive(format!("generated {} suite does not build in {}: {}", s.pkg.name(), profile.name(), e.to_string().chars().take(300).collect::<String>()));
            return;
        }
        Err((loc, msg)) => {
            res.count("compiler_panics");
            res.inconclusive(format!("compiler panicked on a generated suite at {loc}: {}", msg.chars().take(200).collect::<String>()));
            return;
        }
    };
    let by_name: BTreeMap<&str, &TestSpec> = s.tests.iter().map(|t| (t.name.as_str(), t)).collect();

    // (label, runners, filter)
    let mut runs: Vec<(String, usize, Option<(String, bool)>)> = vec![("full-1".into(), 1, None), (format!("full-{}", s.n_runners), s.n_runners, None)];
    for (k, (p, e)) in s.filters.iter().enumerate() {
        let runners = if k % 2 == 0 { 1 } else { s.n_runners };
        runs.push((format!("filter{k}-{runners}"), runners, Some((p.clone(), *e))));
    }
    if thorough {
        runs.push(("full-1-again".into(), 1, None));
    }
    let mut full: Option<BTreeMap<String, Obs>> = None;
    let mut ok = true;
    for (label, runners, filter) in &runs {
        let f = filter.as_ref().map(|(p, e)| (p.as_str(), *e));
        rearm(res);
        let obs = match catch(AssertUnwindSafe(|| run_built(&built, *runners, f))) {
            Ok(Ok(o)) => o,
            Ok(Err(e)) => {
                res.count("runs_failed");
                res.inconclusive(format!("forc test run {label} failed: {}", e.to_string().chars().take(200).collect::<String>()));
                ok = false;
                continue;
            }
            Err((loc, msg)) => {
                res.violation(panic_signature(&loc, &msg), format!("forc test run {label} panicked: {msg} at {loc}"), replay_json(s, profile, "", label));
                ok = false;
                continue;
            }
        };
        if *runners == 1 {
            res.count("runs_with_1_runner");
        } else {
            res.count("runs_with_n_runners");
            res.count(&format!("runs_with_{runners}_runners"));
        }
        let Some(got) = check_set(s, &obs, f, profile, label, res) else {
            ok = false;
            continue;
        };
        if let Some((_, exact)) = f {
            res.count("filtered_runs");
            res.count(if exact { "filtered_runs_exact" } else { "filtered_runs_substring" });
            if got.is_empty() {
                res.count("filtered_runs_selecting_nothing");
            }
            if got.len() == 1 {
                res.count("filtered_runs_selecting_one");
            }
            if got.len() > 1 && got.len() < s.tests.len() {
                res.count("filtered_runs_selecting_proper_subset");
            }
        }
        let first_full = filter.is_none() && full.is_none();
        for (name, o) in &got {
            let spec = by_name[name];
            let good = check_test(s, spec, o, profile, label, res);
            ok &= good;
            res.add("log_values_checked", o.logs.len() as u64);
            res.count("test_executions_checked");
            if first_full && good {
                res.count(&format!("cell_{}_{}", spec.kind.name(), spec.exp_class().name()));
                if spec.writes_storage {
                    res.count("storage_writing_tests_checked");
                }
                res.add("initialiser_reads_checked", spec.init_reads);
                if spec.in_submodule {
                    res.count("submodule_tests_checked");
                }
                res.count(if o.passed { "tests_reported_passed" } else { "tests_reported_failed" });
            } else if good {
                res.add("initialiser_reads_checked", spec.init_reads);
            }
            // filtered / repeated runs report what the full run reported
            if let (false, Some(full)) = (first_full, &full) {
                if let Some(fo) = full.get(*name) {
                    res.count(if filter.is_some() { "filtered_tests_compared_with_full_run" } else { "repeated_tests_compared_with_first_run" });
                    if fo != *o {
                        res.violation(
                            format!("run-differs-from-full-run:{}", s.pkg.name()),
                            format!("[{} {} run={label} test={name}] full single-runner run observed passed={} {:?} {:?}; this run observed passed={} {:?} {:?}", s.pkg.name(), profile.name(), fo.passed, fo.state, short_logs(&fo.logs), o.passed, o.state, short_logs(&o.logs)),
                            replay_json(s, profile, name, label),
                        );
                        ok = false;
                    }
                }
            }
        }
        if first_full {
            full = Some(got.iter().map(|(k, v)| (k.to_string(), (*v).clone())).collect());
        }
    }
    // the same through engine::run_unit_tests (which builds again): cheap packages only
    if !s.pkg.with_std() || (thorough && s.hash() % 4 == 0) {
        let (p, e) = &s.filters[0];
        for f in [None, Some((p.as_str(), *e))] {
            rearm(res);
            match catch(AssertUnwindSafe(|| run_engine(dir, profile, s.n_runners, f))) {
                Ok(Ok(obs)) => {
                    res.count("engine_run_unit_tests_runs");
                    if let Some(got) = check_set(s, &obs, f, profile, "engine", res) {
                        for (name, o) in &got {
                            ok &= check_test(s, by_name[name], o, profile, "engine", res);
                            res.count("test_executions_checked");
                        }
                    } else {
                        ok = false;
                    }
                }
                Ok(Err(e)) => res.inconclusive(format!("engine::run_unit_tests failed: {}", e.to_string().chars().take(200).collect::<String>())),
                Err((loc, msg)) => {
                    res.violation(panic_signature(&loc, &msg), format!("forc test panicked: {msg} at {loc}"), replay_json(s, profile, "", "engine"));
                    ok = false;
                }
            }
        }
    }
    if full.is_some() {
        res.count(&format!("suites_{}", match s.pkg {
            PkgKind::StdlessLibrary => "stdless_library",
            PkgKind::Contract => "contract",
            _ => "std_noncontract",
        }));
        res.count(&format!("suites_kind_{}", s.pkg.name()));
        res.count(&format!("profile_{}", profile.name()));
        res.max("max_tests_in_suite", s.tests.len() as u64);
        if s.kinds() >= 3 {
            res.note_nontrivial(s.hash() ^ (profile as u64));
        }
        if ok && (res.samples.is_empty() || (s.pkg == PkgKind::Contract && res.samples.len() < 2)) {
            res.sample(json!({"package": s.pkg.name(), "profile": profile.name(), "tests": s.tests.len(), "runners": [1, s.n_runners], "filters": s.filters,
                "first_tests": s.tests.iter().take(4).map(|t| json!({"name": t.name, "kind": t.kind.name(), "code": t.code, "expect": format!("{:?}", t.expect), "logs": t.logs.len(), "reported_passed": t.should_pass()})).collect::<Vec<_>>()}));
        }
    }
}

// ------------------------------------------------------------------------------------------
// Shard loop, replay

fn pkg_for(rng: &mut StdRng, shard: u64, index: u64) -> PkgKind {
    // a fixed rhythm so that every shard covers every class early, whatever the time budget
    // (staggered over the shards so that the expensive std builds do not all start together)
    match (index + 3 * shard) % 8 {
        0 => PkgKind::Contract,
        4 => *[PkgKind::Library, PkgKind::Script, PkgKind::Script, PkgKind::Predicate].choose(rng).unwrap(),
        _ => PkgKind::StdlessLibrary,
    }
}

fn shard(ctx: &ShardCtx) -> ShardResult {
    let mut res = ShardResult::default();
    let thorough = ctx.tier == Tier::Thorough;
    let mut i = ctx.first_index;
    // duration of the slowest std (suite, profile) so far (initial estimate 12 s): such a case is not started when less
    // than that is left of the budget (the index is skipped; the case at an index stays a pure
    // function of (seed, shard, index))
    let mut std_case_s = 12f64;
    while ctx.time_left() {
        let mut rng = ctx.rng(i);
        let pkg = pkg_for(&mut rng, ctx.shard, i);
        let left = ctx.budget.saturating_sub(ctx.start.elapsed()).as_secs_f64();
        if pkg.with_std() && res.counters.contains_key("suites_contract") && res.counters.contains_key("suites_std_noncontract") && left < std_case_s {
            res.count("std_cases_skipped_near_end_of_budget");
            i += 1;
            continue;
        }
        let suite = gen_suite(&mut rng, pkg);
        // std suites cost seconds per build: one profile per case in quick (alternating), both in thorough
        let profiles: Vec<Profile> = if !pkg.with_std() || thorough {
            Profile::BOTH.to_vec()
        } else if (i / 4 + ctx.shard) % 2 == 0 {
            vec![Profile::Debug]
        } else {
            vec![Profile::Release]
        };
        for profile in profiles {
            if !ctx.time_left() && res.evaluations > 0 {
                break;
            }
            let desc = format!("// {} {}\n{}\n// ---- inner.sw\n{}", pkg.name(), profile.name(), suite.main_src, suite.sub_src.as_ref().map(|x| x.1.as_str()).unwrap_or(""));
            journal_current(ctx, &desc);
            let dir = ctx.work().join("suite");
            let t0 = std::time::Instant::now();
            check_suite_w(&suite, profile, &dir, thorough, &mut res, &|r| ctx.begin_case(i, &desc, r));
            ctx.end_case();
            if pkg.with_std() {
                std_case_s = std_case_s.max(t0.elapsed().as_secs_f64());
            }
        }
        i += 1;
    }
    res
}

fn replay(case: &Value) -> ShardResult {
    let mut res = ShardResult::default();
    let suite: Suite = match serde_json::from_value(case["suite"].clone()) {
        Ok(s) => s,
        Err(e) => {
            res.harness_fault = Some(format!("replay file has no suite: {e}"));
            return res;
        }
    };
    let profile = if case["profile"].as_str() == Some("release") { Profile::Release } else { Profile::Debug };
    let dir = work_dir("C29").join("replay");
    check_suite(&suite, profile, &dir, true, &mut res);
    res
}

// ------------------------------------------------------------------------------------------
// helper subcommands:
//   c29-gen <seed> <index> <pkgkind> [profile]   print and run one generated suite
//   c29-selftest                                 the oracle against synthetic wrong observations

fn subcommand(args: &[String]) -> Option<i32> {
    match args.first().map(|s| s.as_str()) {
        Some("c29-gen") => {
            let seed: u64 = args.get(1).and_then(|s| s.parse().ok()).unwrap_or(1);
            let index: u64 = args.get(2).and_then(|s| s.parse().ok()).unwrap_or(0);
            let pkg = match args.get(3).map(|s| s.as_str()) {
                Some("library") => PkgKind::Library,
                Some("script") => PkgKind::Script,
                Some("predicate") => PkgKind::Predicate,
                Some("contract") => PkgKind::Contract,
                _ => PkgKind::StdlessLibrary,
            };
            let profiles: Vec<Profile> = match args.get(4).map(|s| s.as_str()) {
                Some("debug") => vec![Profile::Debug],
                Some("release") => vec![Profile::Release],
                _ => Profile::BOTH.to_vec(),
            };
            let shard_no: u64 = std::env::var("C29_SHARD").ok().and_then(|s| s.parse().ok()).unwrap_or(0);
            let mut rng = rng_for(seed, shard_no, index);
            let pkg = if args.get(3).map(|s| s.as_str()) == Some("auto") { pkg_for(&mut rng, shard_no, index) } else { pkg };
            let suite = gen_suite(&mut rng, pkg);
            println!("{}", suite.main_src);
            if let Some((_, s)) = &suite.sub_src {
                println!("// ---- inner.sw\n{s}");
            }
            let dir = work_dir("C29gen");
            let mut bad = 0;
            for p in profiles {
                let mut res = ShardResult::default();
                let t = std::time::Instant::now();
                let last = std::cell::Cell::new(std::time::Instant::now());
                check_suite_w(&suite, p, &dir.join("suite"), true, &mut res, &|_| {
                    if std::env::var("C29_TIMING").is_ok() {
                        println!("  phase took {:.2}s", last.get().elapsed().as_secs_f64());
                    }
                    last.set(std::time::Instant::now());
                });
                println!("{} {}: {:.2}s violations={} inconclusive={:?} counters={:?}", pkg.name(), p.name(), t.elapsed().as_secs_f64(), res.violations.len(), res.inconclusive_notes, res.counters);
                for v in &res.violations {
                    println!("  VIOLATION {} :: {}", v.signature, v.description);
                }
                if res.counters.contains_key("suites_rejected_by_compiler") && pkg.with_std() {
                    let mut am = engine::Amortised::new(&dir.join("am"));
                    match am.diagnose_dir(&dir.join("suite"), p) {
                        Ok((errs, produced)) => {
                            println!("  diagnose: produced={produced}");
                            for e in errs.iter().take(8) {
                                println!("  error: {e} @ {:?}", sway_types::Spanned::span(e).as_str().chars().take(80).collect::<String>());
                            }
                        }
                        Err(e) => println!("  diagnose failed: {e}"),
                    }
                }
                bad += res.violations.len();
            }
            Some(if bad > 0 { 1 } else { 0 })
        }
        Some("c29-selftest") => Some(selftest()),
        _ => None,
    }
}

/// The oracle against synthetic observations: every wrong observation must be reported, the right
/// one must not.
fn selftest() -> i32 {
    let mut rng = rng_for(7, 0, 0);
    let suite = gen_suite(&mut rng, PkgKind::Contract);
    let truth: Vec<Obs> = suite
        .tests
        .iter()
        .map(|t| Obs { name: t.name.clone(), passed: t.should_pass(), state: t.code.map(State::Revert).unwrap_or(State::Return), logs: t.logs.iter().map(|v| Ok(*v)).collect() })
        .collect();
    let mut failures = 0;
    let mut expect = |label: &str, obs: &[Obs], filter: Option<(&str, bool)>, want_violation: Option<&str>| {
        let mut res = ShardResult::default();
        if let Some(got) = check_set(&suite, obs, filter, Profile::Debug, "selftest", &mut res) {
            let by_name: BTreeMap<&str, &TestSpec> = suite.tests.iter().map(|t| (t.name.as_str(), t)).collect();
            for (n, o) in got {
                check_test(&suite, by_name[n], o, Profile::Debug, "selftest", &mut res);
            }
        }
        let got = res.violations.first().map(|v| v.signature.clone());
        let good = match (want_violation, &got) {
            (None, None) => true,
            (Some(w), Some(g)) => g.starts_with(w),
            _ => false,
        };
        println!("selftest {label}: expected {want_violation:?} got {got:?} {}", if good { "ok" } else { "FAILED" });
        if !good {
            failures += 1;
        }
    };
    expect("truth", &truth, None, None);
    // verdict inverted for one test of every cell
    let mut seen = BTreeSet::new();
    for (i, t) in suite.tests.iter().enumerate() {
        if seen.insert((t.kind, t.exp_class().name())) {
            let mut o = truth.clone();
            o[i].passed = !o[i].passed;
            expect(&format!("inverted verdict {}x{}", t.kind.name(), t.exp_class().name()), &o, None, Some("wrong-verdict"));
        }
    }
    // a test that saw another test's storage write instead of the initialiser
    let writer = suite.tests.iter().position(|t| t.writes_storage).expect("writer");
    let victim = (writer + 1) % suite.tests.len();
    let leaked = suite.tests[writer].logs[suite.tests[writer].init_reads as usize];
    let mut o = truth.clone();
    o[victim].logs[0] = Ok(leaked);
    expect("leaked storage write", &o, None, Some("foreign-log-value"));
    // a test that executed another test's body
    let mut o = truth.clone();
    let other = (victim + 1) % suite.tests.len();
    o[victim].logs = truth[other].logs.clone();
    o[victim].state = truth[other].state.clone();
    expect("wrong body executed", &o, None, Some(""));
    // an extra log receipt of another test appended
    let mut o = truth.clone();
    let foreign = *suite.tests[other].logs.last().unwrap();
    o[victim].logs.push(Ok(foreign));
    expect("foreign log appended", &o, None, Some("foreign-log-value"));
    // a missing test, a duplicated test
    let mut o = truth.clone();
    o.pop();
    expect("test missing from the full run", &o, None, Some("full-run-wrong-test-set"));
    let mut o = truth.clone();
    o.push(truth[0].clone());
    expect("test reported twice", &o, None, Some("full-run-wrong-test-set"));
    // filters
    let name = suite.tests[0].name.clone();
    let exact: Vec<Obs> = truth.iter().filter(|t| t.name == name).cloned().collect();
    expect("exact filter, right set", &exact, Some((&name, true)), None);
    let contains: Vec<Obs> = truth.iter().filter(|t| t.name.contains(&name)).cloned().collect();
    expect("substring filter, right set", &contains, Some((&name, false)), None);
    expect("filter ignored", &truth, Some((&name, true)), Some("filtered-run-wrong-test-set"));
    let wrong: Vec<Obs> = vec![truth[1].clone()];
    expect("filter ran the wrong entry", &wrong, Some((&name, true)), Some("filtered-run-wrong-test-set"));
    // revert code dropped from the state
    if let Some(i) = suite.tests.iter().position(|t| matches!(t.code, Some(c) if c != 0)) {
        let mut o = truth.clone();
        o[i].state = State::Revert(0);
        expect("revert code lost", &o, None, Some("wrong-terminal-state"));
    }
    // oracle table
    let table = [
        (None, Expect::None, true), (None, Expect::Any, false), (None, Expect::Code(0), false),
        (Some(0), Expect::None, false), (Some(0), Expect::Any, true), (Some(0), Expect::Code(0), true), (Some(0), Expect::Code(1), false),
        (Some(SIG_ASSERT), Expect::Code(SIG_ASSERT), true), (Some(SIG_ASSERT), Expect::Code(SIG_ASSERT_EQ), false),
    ];
    for (code, e, want) in table {
        if oracle_pass(code, e) != want {
            println!("selftest oracle table FAILED for {code:?} {e:?}");
            failures += 1;
        }
    }
    println!("selftest failures: {failures}");
    if failures > 0 {
        1
    } else {
        0
    }
}
