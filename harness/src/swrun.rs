//! Shared driver for the SwGen family: build a case (program + inputs + reference outcomes),
//! compile it through the amortised engine, run it on the VM, compare.

use crate::common::*;
use crate::engine::*;
use crate::swgen::*;
use crate::swgen_gen::*;
use rand::rngs::StdRng;
use serde_json::{json, Value};

pub struct Case {
    pub mode: Mode,
    pub program: Program,
    pub src: String,
    pub inputs: Vec<(u64, Vec<Val>)>,
    pub script_data: Vec<Vec<u8>>,
    pub expected: Vec<RefOutcome>,
    /// (seed, shard, index, n_inputs): the case is a pure function of these
    pub origin: (u64, u64, u64, usize),
}

/// The case generated for (seed, shard, index): what shards run and what replay regenerates.
pub fn case_at(seed: u64, shard: u64, index: u64, n_inputs: usize, res: &mut ShardResult) -> Case {
    let mut rng = rng_for(seed, shard, index);
    let mut c = make_case(&mut rng, n_inputs, res);
    c.origin = (seed, shard, index, n_inputs);
    c
}

pub fn make_case(rng: &mut StdRng, n_inputs: usize, res: &mut ShardResult) -> Case {
    let mode = Mode::pick(rng);
    make_case_mode(rng, mode, n_inputs, res)
}

pub fn make_case_mode(rng: &mut StdRng, mode: Mode, n_inputs: usize, res: &mut ShardResult) -> Case {
    let program = Gen::new(rng, mode).program();
    let src = print_program(&program);
    let inputs = gen_inputs(rng, &program, n_inputs);
    let mut expected = vec![];
    let mut script_data = vec![];
    for (sel, args) in &inputs {
        let (o, hits) = Interp::run(&program, *sel, args);
        for (k, v) in hits {
            res.add(&format!("op.{k}"), v);
        }
        expected.push(o);
        script_data.push(crate::swgen::script_data(&program, *sel, args));
    }
    res.count(&format!("mode.{}", mode.name()));
    Case { mode, program, src, inputs, script_data, expected, origin: (0, 0, 0, n_inputs) }
}

impl Case {
    pub fn replay_json(&self, extra: Value) -> Value {
        json!({
            "source": self.src,
            "mode": self.mode.name(),
            "script_data": self.script_data.iter().map(hex::encode).collect::<Vec<_>>(),
            "expected": self.expected.iter().map(|o| match &o.result { Ok(b) => json!({"return": hex::encode(b), "logs": o.logs.iter().map(hex::encode).collect::<Vec<_>>()}), Err(k) => json!({"revert": format!("{k:?}")}) }).collect::<Vec<_>>(),
            "origin": [self.origin.0, self.origin.1, self.origin.2, self.origin.3 as u64],
            "extra": extra,
        })
    }
    /// non-trivial: at least one input runs to completion and at least two inputs give
    /// different reference outcomes (so the result depends on the inputs)
    pub fn nontrivial(&self) -> bool {
        let ok: Vec<&Vec<u8>> = self.expected.iter().filter_map(|o| o.result.as_ref().ok()).collect();
        if ok.is_empty() {
            return false;
        }
        let first = &self.expected[0];
        self.expected.iter().any(|o| match (&o.result, &first.result) {
            (Ok(a), Ok(b)) => a != b || o.logs != first.logs,
            (Err(_), Err(_)) => false,
            _ => true,
        })
    }
}

/// Regenerate the case recorded in a replay file (None when the generator no longer produces
/// the recorded source for those coordinates).
pub fn case_from_replay(v: &Value) -> Option<Case> {
    let o = v.get("origin")?.as_array()?;
    let mut scratch = ShardResult::default();
    let c = case_at(o.first()?.as_u64()?, o.get(1)?.as_u64()?, o.get(2)?.as_u64()?, o.get(3)?.as_u64()? as usize, &mut scratch);
    if Some(c.src.as_str()) == v.get("source").and_then(|s| s.as_str()) {
        Some(c)
    } else {
        None
    }
}

/// How an observation relates to the reference outcome (comparison rule of DESIGN 3.1).
pub enum Cmp {
    Agree,
    /// reference reverted with IndexOutOfBounds but the program returned normally
    OobNoRevert,
    /// an invalid arithmetic operation whose result is unobservable was (legitimately) removed
    DeadUbTolerated,
    Inconclusive(String),
    Mismatch(String),
}

/// Comparison with arbitration of dead undefined behaviour: when the strict reference outcome
/// is a revert caused by invalid arithmetic (documented undefined behaviour that the optimiser
/// may remove when the result is dead) and the program did not revert, the reference is
/// re-run with the failing operation's result replaced by four different values. If all four
/// runs agree, the operation is semantically unobservable and the program must behave like
/// those runs; if they differ the operation is observable and not reverting is a violation.
pub fn compare_case(case: &Case, k: usize, obs: &Observation) -> Cmp {
    let expected = &case.expected[k];
    if expected.order_dependent {
        return Cmp::Inconclusive("the index expression of an element read modifies the indexed variable: evaluation order not specified".into());
    }
    let arith = matches!(expected.result, Err(RevertKind::Overflow) | Err(RevertKind::DivZero));
    if !arith || obs.outcome.reverted() || matches!(obs.outcome, Outcome::VmError(_)) {
        return compare(expected, obs);
    }
    let (sel, args) = &case.inputs[k];
    let mut outs = vec![];
    for s in [Subst::Zero, Subst::One, Subst::Max, Subst::Wrapped] {
        let (o, _) = Interp::run_with(&case.program, *sel, args, Some(s));
        if matches!(o.result, Err(RevertKind::Overflow) | Err(RevertKind::DivZero)) {
            return Cmp::Inconclusive("a second invalid arithmetic operation follows the first; observability undecided".into());
        }
        outs.push(o);
    }
    let same = outs.iter().all(|o| match (&o.result, &outs[0].result) {
        (Ok(a), Ok(b)) => a == b && o.logs == outs[0].logs,
        (Err(_), Err(_)) => true,
        _ => false,
    });
    if !same {
        return Cmp::Mismatch(format!("semantics prescribe a revert ({:?}) and the result of the failing operation is observable, but the program ended with {}", expected.result.as_ref().err().unwrap(), obs.short()));
    }
    match compare(&outs[0], obs) {
        Cmp::Agree => Cmp::DeadUbTolerated,
        other => other,
    }
}

pub fn compare(expected: &RefOutcome, obs: &Observation) -> Cmp {
    if let Outcome::VmError(e) = &obs.outcome {
        return Cmp::Mismatch(format!("VM refused the transaction: {e}"));
    }
    match &expected.result {
        Err(kind) => {
            if obs.outcome.reverted() {
                Cmp::Agree
            } else if *kind == RevertKind::IndexOutOfBounds {
                Cmp::OobNoRevert
            } else {
                Cmp::Mismatch(format!("semantics prescribe a revert ({kind:?}) but the program ended with {}", obs.short()))
            }
        }
        Ok(bytes) => {
            if obs.outcome.reverted() {
                return Cmp::Mismatch(format!("semantics prescribe return {} but the program reverted: {}", hex::encode(bytes), obs.short()));
            }
            let got = match &obs.outcome {
                Outcome::ReturnData(d) => d.clone(),
                Outcome::Return(v) => v.to_be_bytes().to_vec(),
                _ => vec![],
            };
            if &got != bytes {
                return Cmp::Mismatch(format!("return data {} differs from prescribed {}", hex::encode(&got), hex::encode(bytes)));
            }
            let got_logs: Vec<&Vec<u8>> = obs.logs.iter().map(|(_, d)| d).collect();
            let exp_logs: Vec<&Vec<u8>> = expected.logs.iter().collect();
            if got_logs != exp_logs {
                return Cmp::Mismatch(format!("logs differ: got [{}] expected [{}]", got_logs.iter().map(|d| hex::encode(d)).collect::<Vec<_>>().join(","), exp_logs.iter().map(|d| hex::encode(d)).collect::<Vec<_>>().join(",")));
            }
            Cmp::Agree
        }
    }
}

pub fn first_error_text(am: &mut Amortised, dir: &std::path::Path, profile: Profile) -> String {
    match am.diagnose_dir(dir, profile) {
        Ok((errs, _)) => errs
            .first()
            .map(|e| {
                use sway_types::Spanned;
                let sp = e.span();
                let lc = sp.start_line_col_one_index();
                format!("{e} @{}:{} `{}`", lc.line, lc.col, sp.as_str().chars().take(60).collect::<String>())
            })
            .unwrap_or_else(|| "no diagnostics".into()),
        Err(e) => format!("diagnose failed: {e}"),
    }
}

/// Abstract a compiler message into a bucket name (digits and identifiers removed).
pub fn bucket(msg: &str) -> String {
    let mut out = String::new();
    for c in msg.chars().take(70) {
        if c.is_ascii_alphabetic() || c == ' ' {
            out.push(c);
        } else if !out.ends_with('#') {
            out.push('#');
        }
    }
    out
}
