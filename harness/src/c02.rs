//! C02: optimisation level never changes observable behaviour.
//! Pure differential monitor: the same program built in debug and in release, run on the same
//! inputs, observations compared (return data, logs, revert status).
use crate::common::*;
use crate::e2e;
use crate::engine::*;
use crate::swrun::*;
use crate::{Plan, Prop};
use serde_json::{json, Value};
use std::panic::AssertUnwindSafe;

pub static META: PropertyMeta = PropertyMeta {
    id: "C02",
    level: "exploration",
    rule: "pairs (debug build, release build) of one program run on the same inputs: SwGen programs x 12 input vectors, and e2e 'run' tests (seed-rotated slice in quick, all in thorough) with their script data; an evaluation = one program pair; non-trivial = both builds succeeded, the two bytecodes differ and at least one execution returned normally; distinct = hash of source text / test name",
    assumptions: &[
        "fuel-vm 0.66 is the trusted execution substrate",
        "invalid arithmetic whose result is unobservable may be removed by the optimiser (documented undefined behaviour): such a pair is tolerated only when the reference interpreter shows the failing operation's result cannot influence the outcome",
    ],
    floor_evaluations: 40,
    floor_nontrivial: 10,
    required_counters: &["pairs_compared", "pairs_bytecode_differs", "executions_compared", "e2e_pairs_compared"],
};

pub static PROP: Prop = Prop {
    meta: &META,
    plan: |t| Plan { nshards: 16, budget_s: t.pick(60.0, 540.0), mem_gib: 6 },
    shard,
    replay,
    extra: crate::no_extra,
    subcommand: crate::no_subcommand,
};

pub fn gen_pair(am: &mut Amortised, case: &Case, res: &mut ShardResult) {
    res.evaluations += 1;
    let mut built = vec![];
    for profile in Profile::BOTH {
        match catch(AssertUnwindSafe(|| am.compile("gencase", &case.src, profile))) {
            Ok(Ok(c)) => built.push(c),
            Ok(Err(_)) => {
                res.count("rejected");
                let _ = std::fs::remove_dir_all(am.last_dir());
            }
            Err(_) => {
                res.count("compiler_panics");
                let _ = std::fs::remove_dir_all(am.last_dir());
            }
        }
    }
    if built.len() != 2 {
        if built.len() == 1 {
            // accepted in one profile and rejected in the other: reported by C17 if it is an ICE;
            // here nothing can be compared
            res.count("built_in_one_profile_only");
        }
        for c in &built {
            am.remove(c);
        }
        return;
    }
    res.count("pairs_compared");
    let differs = built[0].pkg.bytecode.bytes != built[1].pkg.bytecode.bytes;
    if differs {
        res.count("pairs_bytecode_differs");
    }
    let mut any_returned = false;
    for (k, data) in case.script_data.iter().enumerate() {
        let d = run_script(&built[0].pkg.bytecode.bytes, data);
        let r = run_script(&built[1].pkg.bytecode.bytes, data);
        res.count("executions_compared");
        if !d.outcome.reverted() {
            any_returned = true;
        }
        if d.outcome.reverted() && r.outcome.reverted() {
            res.count("executions_both_reverted");
        }
        if d.same_behaviour(&r) {
            continue;
        }
        // differing pair: a consequence of the listed C01 finding (a run-time index >= length is
        // not checked, so what is read / whether the VM faults depends on the memory layout)?
        if matches!(compare_case(case, k, &d), Cmp::OobNoRevert) || matches!(compare_case(case, k, &r), Cmp::OobNoRevert) {
            res.violation(crate::c01::OOB_SIG, format!("[input {k}] an unchecked out-of-bounds index makes the profiles differ: debug: {} / release: {}", d.short(), r.short()), case.replay_json(json!({"input": k})));
            continue;
        }
        // differing pair: is it the removal of dead invalid arithmetic?
        let non_reverting = if d.outcome.reverted() { &r } else { &d };
        if d.outcome.reverted() != r.outcome.reverted() {
            match compare_case(case, k, non_reverting) {
                Cmp::DeadUbTolerated => {
                    res.count("dead_invalid_arithmetic_removed_tolerated");
                    continue;
                }
                Cmp::Inconclusive(n) => {
                    res.inconclusive(n);
                    continue;
                }
                _ => {}
            }
        }
        res.violation(
            format!("debug-release-differ:{:016x}", hash64(case.src.as_bytes())),
            format!("[input {k} mode {}] debug: {} / release: {}", case.mode.name(), d.short(), r.short()),
            case.replay_json(json!({"input": k})),
        );
        break;
    }
    if differs && any_returned {
        res.note_nontrivial(hash64(case.src.as_bytes()));
    }
    if res.samples.is_empty() {
        res.sample(json!({"kind": "swgen", "mode": case.mode.name(), "source": case.src, "script_data": case.script_data.iter().take(2).map(hex::encode).collect::<Vec<_>>()}));
    }
    for c in &built {
        am.remove(c);
    }
}

fn e2e_pair(t: &e2e::RunTest, res: &mut ShardResult) {
    if t.unsupported_profiles.iter().any(|p| p == "debug" || p == "release") {
        res.count("e2e_skipped_unsupported_profile");
        return;
    }
    res.evaluations += 1;
    let d = catch(AssertUnwindSafe(|| plain_build(&t.dir, Profile::Debug)));
    let r = catch(AssertUnwindSafe(|| plain_build(&t.dir, Profile::Release)));
    let (d, r) = match (d, r) {
        (Ok(Ok(d)), Ok(Ok(r))) => (d, r),
        _ => {
            res.count("e2e_build_failed");
            res.inconclusive(format!("e2e test {} did not build in both profiles", t.name));
            return;
        }
    };
    res.count("e2e_pairs_compared");
    res.count("pairs_compared");
    let od = run_script(&d.bytecode.bytes, &t.script_data);
    let or = run_script(&r.bytecode.bytes, &t.script_data);
    res.count("executions_compared");
    if d.bytecode.bytes != r.bytecode.bytes {
        res.count("pairs_bytecode_differs");
        if !od.outcome.reverted() {
            res.note_nontrivial(hash64(t.name.as_bytes()));
        }
    }
    // raw `log` instructions of asm blocks log register contents, which may be addresses of
    // locals (layout dependent, e.g. should_pass/language/retd_b256): the receipt must be
    // there in both runs, its operand values are not compared
    let mask = |o: &Observation| {
        let mut m = o.clone();
        for &k in &o.raw_log_positions {
            m.logs[k] = (0, vec![]);
        }
        m
    };
    if !od.raw_log_positions.is_empty() {
        res.count("e2e_raw_log_operands_not_compared");
    }
    if !mask(&od).same_behaviour(&mask(&or)) {
        res.violation(format!("debug-release-differ:e2e:{}", t.name), format!("e2e test {}: debug: {} / release: {}", t.name, od.short(), or.short()), json!({"e2e": t.name}));
    }
    if res.samples.len() < 2 {
        res.sample(json!({"kind": "e2e", "test": t.name, "debug": od.short(), "release": or.short()}));
    }
}

fn shard(ctx: &ShardCtx) -> ShardResult {
    let mut res = ShardResult::default();
    // phase A: e2e corpus slice
    match e2e::prepare("C02") {
        Ok(_) if ctx.first_index > 0 => {}
        Ok(root) => {
            let all = e2e::list_run_tests(&root);
            res.max("max_e2e_run_tests_available", all.len() as u64);
            let mine = e2e::slice_for(&all, ctx.seed, ctx.shard, ctx.nshards);
            let share = ctx.budget.mul_f64(ctx.tier.pick(0.35, 0.5));
            for t in mine {
                if ctx.start.elapsed() > share {
                    break;
                }
                journal_current(ctx, &t.name);
                ctx.begin_case(0, &t.name, &res);
                e2e_pair(&t, &mut res);
                ctx.end_case();
            }
        }
        Err(e) => res.harness_fault = Some(format!("e2e corpus copy failed: {e}")),
    }
    // phase B: generated programs
    let mut am = Amortised::new(&ctx.work());
    if let Err(e) = am.warm() {
        res.harness_fault = Some(format!("std does not compile: {e}"));
        return res;
    }
    let mut i = ctx.first_index;
    let clock = ctx.clock();
    while clock.left() && (ctx.first_index > 0 || clock.elapsed() < ctx.budget.mul_f64(0.65)) {
        let case = case_at(ctx.seed ^ 0x0c02, ctx.shard, i, 12, &mut res);
        journal_current(ctx, &case.src);
        ctx.begin_case(i, &format!("// origin: {:?}\n{}", case.origin, case.src), &res);
        gen_pair(&mut am, &case, &mut res);
        ctx.end_case();
        i += 1;
    }
    res
}

fn replay(case: &Value) -> ShardResult {
    let mut res = ShardResult::default();
    if let Some(name) = case.get("e2e").and_then(|v| v.as_str()) {
        match e2e::prepare("C02") {
            Ok(root) => {
                let all = e2e::list_run_tests(&root);
                match all.iter().find(|t| t.name == name) {
                    Some(t) => e2e_pair(t, &mut res),
                    None => res.harness_fault = Some("recorded e2e test no longer exists".into()),
                }
            }
            Err(e) => res.harness_fault = Some(e),
        }
        return res;
    }
    let work = work_dir("C02").join("replay");
    clean_dir(&work);
    let mut am = Amortised::new(&work);
    match case_from_replay(case) {
        Some(c) => gen_pair(&mut am, &c, &mut res),
        None => res.harness_fault = Some("the generator no longer reproduces the recorded program".into()),
    }
    res
}
