//! C24: LSP compilation scheduling neither hangs nor drops edits.
//! Monitor (hooks H0 + H4): a token-passing cooperative scheduler drives the REAL ServerState
//! (real handlers, real worker thread, real compiles of a std-less package): an instrumented
//! thread may only run between two hook points while it holds the token, and the scheduler
//! picks the next runner with a seeded strategy, so the recorded event log is a faithful total
//! order of the accesses to is_compiling / retrigger_compilation / the channel / the Notify.
//! Liveness is restated as safety at quiescence: (a) nobody is parked in wait_for_parsing and
//! a fresh wait_for_parsing returns; (b) the last request sent was compiled and not cancelled.
use crate::common::*;
use crate::{Plan, Prop};
use lsp_types::{DidChangeTextDocumentParams, DidOpenTextDocumentParams, TextDocumentContentChangeEvent, TextDocumentItem, Url, VersionedTextDocumentIdentifier};
use rand::rngs::StdRng;
use rand::{Rng, SeedableRng};
use serde_json::{json, Value};
use std::collections::{BTreeSet, HashMap, VecDeque};
use std::sync::{Arc, Condvar, Mutex};
use std::thread::ThreadId;
use std::time::{Duration, Instant};
use sway_lsp::handlers::notification;
use sway_lsp::server_state::ServerState;
use sway_types::verif_hooks::{Action, Kind};

pub static META: PropertyMeta = PropertyMeta {
    id: "C24",
    level: "exploration",
    rule: "client scripts of <= 6 events from {didOpen, didChange(v), request waiting for parsing} - changes issued by one sequential editor task, didOpen repeats and waiting requests concurrent - run against a fresh real ServerState under a controlled schedule (seeded random walk over the runnable actors at every hook point); an evaluation = one controlled run to quiescence (+ a probe wait_for_parsing); non-trivial = the run had >= 2 context switches between actors while a compilation was in flight; distinct = the interleaving signature (sequence of (actor, point))",
    assumptions: &[
        "interleavings are those of the hooked accesses; code between two hook points is atomic",
        "tokio's Notify and crossbeam's bounded channel are trusted; their blocking behaviour is modelled (occupancy, parked waiters) to decide who is runnable, and a run in which the model and the real threads disagree is inconclusive",
        "a violation is reported only if it reproduces when its recorded schedule is replayed",
    ],
    floor_evaluations: 200,
    floor_nontrivial: 50,
    required_counters: &["runs_reached_quiescence", "compilations_observed", "cancellations_observed", "waiters_parked_and_woken", "probe_waits_returned"],
};

pub static PROP: Prop = Prop {
    meta: &META,
    plan: |t| Plan { nshards: 16, budget_s: t.pick(55.0, 1200.0), mem_gib: 6 },
    shard,
    replay,
    extra: crate::no_extra,
    subcommand: crate::no_subcommand,
};

// ------------------------------------------------------------------------------------------
// scheduler

#[derive(Clone, Debug, PartialEq)]
enum St {
    Running,
    AtPoint,
    Blocked(String),
    Done,
}

#[derive(Clone, Debug)]
struct Ev {
    actor: usize,
    point: String,
    detail: String,
}

struct Actor {
    name: String,
    thread: Option<ThreadId>,
    st: St,
}

struct Sched {
    enabled: bool,
    actors: Vec<Actor>,
    token: Option<usize>,
    log: Vec<Ev>,
    occupancy: i32,
    waking: BTreeSet<usize>,
    rng: StdRng,
    choices: Vec<usize>,
    replay: Option<VecDeque<usize>>,
    diverged: Option<String>,
    switches_during_compile: u64,
    compiling: bool,
    last_runner: Option<usize>,
    gen: u64,
}

static GEN: std::sync::atomic::AtomicU64 = std::sync::atomic::AtomicU64::new(1);
static SCHED: Mutex<Option<Sched>> = Mutex::new(None);
/// every thread that ever called `worker.recv` while no run was active, in order of appearance
static WORKERS: Mutex<Vec<ThreadId>> = Mutex::new(Vec::new());
static CV: Condvar = Condvar::new();

impl Sched {
    fn actor_of(&mut self, tid: ThreadId, point: &str) -> Option<usize> {
        if let Some(i) = self.actors.iter().position(|a| a.thread == Some(tid)) {
            return Some(i);
        }
        let _ = point;
        None
    }

    fn model_effect(&mut self, actor: usize, point: &str) {
        match point {
            "send.sent" => self.occupancy += 1,
            "worker.got" | "send.drained_one" => self.occupancy -= 1,
            "worker.compile_begin" => self.compiling = true,
            "worker.compile_end" => self.compiling = false,
            "worker.notified" => {
                for (i, a) in self.actors.iter().enumerate() {
                    if a.st == St::Blocked("wfp.park".into()) {
                        self.waking.insert(i);
                    }
                }
            }
            _ => {}
        }
        let _ = actor;
        // channel state changes make blocked channel users runnable
        for (i, a) in self.actors.iter().enumerate() {
            match &a.st {
                St::Blocked(p) if p == "worker.recv" && self.occupancy > 0 => {
                    self.waking.insert(i);
                }
                St::Blocked(p) if p == "send.before_send" && self.occupancy < 1 => {
                    self.waking.insert(i);
                }
                _ => {}
            }
        }
    }

    fn will_block(&self, point: &str) -> bool {
        match point {
            "worker.recv" => self.occupancy <= 0,
            "send.before_send" => self.occupancy >= 1,
            _ => true,
        }
    }

    /// choose the next runner among the actors waiting at a point (None: nobody runnable)
    fn pick(&mut self) -> Option<usize> {
        let cands: Vec<usize> = self.actors.iter().enumerate().filter(|(_, a)| a.st == St::AtPoint).map(|(i, _)| i).collect();
        if cands.is_empty() {
            return None;
        }
        let k = match self.replay.as_mut().and_then(|r| r.pop_front()) {
            Some(k) => k.min(cands.len() - 1),
            None => self.rng.gen_range(0..cands.len()),
        };
        self.choices.push(k);
        let chosen = cands[k];
        if self.compiling && self.last_runner.is_some() && self.last_runner != Some(chosen) {
            self.switches_during_compile += 1;
        }
        self.last_runner = Some(chosen);
        Some(chosen)
    }
}

/// wait (with the lock held through the condvar) until `me` owns the token
fn wait_for_token(mut g: std::sync::MutexGuard<'static, Option<Sched>>, me: usize) {
    let t0 = Instant::now();
    let my_gen = g.as_ref().map(|s| s.gen).unwrap_or(0);
    loop {
        {
            // a thread left over from an earlier run (it was parked for ever there) must not
            // take part in the current one
            let Some(s) = g.as_mut() else { return };
            if !s.enabled || s.gen != my_gen || me >= s.actors.len() {
                return;
            }
            if s.token == Some(me) {
                s.actors[me].st = St::Running;
                return;
            }
            if s.token.is_none() {
                // nobody runs: if threads the model says are waking have not arrived yet, give them time
                let waiting_for_arrivals = s.waking.iter().any(|w| matches!(s.actors[*w].st, St::Blocked(_)));
                if !waiting_for_arrivals || t0.elapsed() > Duration::from_millis(1500) {
                    if waiting_for_arrivals {
                        s.diverged = Some("a thread the model considers woken did not arrive at its next hook point".into());
                        s.waking.clear();
                    }
                    if let Some(n) = s.pick() {
                        s.token = Some(n);
                        CV.notify_all();
                        continue;
                    }
                }
            }
        }
        let (ng, _) = CV.wait_timeout(g, Duration::from_millis(20)).unwrap();
        g = ng;
    }
}

fn callback(kind: Kind, point: &'static str, detail: &str) -> Action {
    let tid = std::thread::current().id();
    let mut g = SCHED.lock().unwrap();
    let Some(s) = g.as_mut() else {
        // between runs: remember which threads are compilation workers (the next run binds the
        // worker that belongs to its own ServerState and ignores workers of finished runs)
        if point == "worker.recv" {
            let mut w = WORKERS.lock().unwrap();
            if !w.contains(&tid) {
                w.push(tid);
            }
        }
        return Action::Continue;
    };
    if !s.enabled {
        return Action::Continue;
    }
    // points of other hook families (dirty-flag files, git fetch) are not scheduling points here
    if !(point.starts_with("worker.") || point.starts_with("send.") || point.starts_with("wfp.") || point.starts_with("open.") || point.starts_with("abort.")) {
        return Action::Continue;
    }
    let Some(me) = s.actor_of(tid, point) else { return Action::Continue };
    s.log.push(Ev { actor: me, point: point.to_string(), detail: detail.to_string() });
    match kind {
        Kind::Point => {
            s.model_effect(me, point);
            s.actors[me].st = St::AtPoint;
            if s.token == Some(me) {
                s.token = None;
            }
            CV.notify_all();
            wait_for_token(g, me);
        }
        Kind::AboutToBlock => {
            if s.will_block(point) {
                s.actors[me].st = St::Blocked(point.to_string());
                if s.token == Some(me) {
                    s.token = None;
                }
                if let Some(n) = s.pick() {
                    s.token = Some(n);
                }
                CV.notify_all();
                // return: the thread now really blocks in recv / send / notified().await
            } else {
                s.actors[me].st = St::AtPoint;
                if s.token == Some(me) {
                    s.token = None;
                }
                CV.notify_all();
                wait_for_token(g, me);
                // the channel may have changed while this actor waited for its turn (e.g. the
                // pending message was drained by a sender): decide again now that it runs
                let mut g = SCHED.lock().unwrap();
                if let Some(s) = g.as_mut() {
                    if s.enabled && me < s.actors.len() && s.token == Some(me) && s.will_block(point) {
                        s.actors[me].st = St::Blocked(point.to_string());
                        s.token = None;
                        if let Some(n) = s.pick() {
                            s.token = Some(n);
                        }
                        CV.notify_all();
                    }
                }
            }
        }
        Kind::Resumed => {
            s.model_effect(me, point);
            s.waking.remove(&me);
            if matches!(s.actors[me].st, St::Blocked(_)) {
                s.actors[me].st = St::AtPoint;
                CV.notify_all();
                wait_for_token(g, me);
            }
            // otherwise the operation did not block and the actor still holds the token
        }
    }
    Action::Continue
}

fn register(name: &str) -> usize {
    let mut g = SCHED.lock().unwrap();
    let s = g.as_mut().unwrap();
    // the entry was created (runnable, not yet bound to a thread) before the thread was spawned,
    // so that quiescence cannot be declared while a client has not started yet
    let me = match s.actors.iter().position(|a| a.name == name && a.thread.is_none()) {
        Some(i) => {
            s.actors[i].thread = Some(std::thread::current().id());
            i
        }
        None => {
            s.actors.push(Actor { name: name.to_string(), thread: Some(std::thread::current().id()), st: St::AtPoint });
            s.actors.len() - 1
        }
    };
    s.log.push(Ev { actor: me, point: "client.start".into(), detail: name.to_string() });
    CV.notify_all();
    wait_for_token(g, me);
    me
}

fn finish_actor(me: usize) {
    let mut g = SCHED.lock().unwrap();
    if let Some(s) = g.as_mut() {
        s.log.push(Ev { actor: me, point: "client.done".into(), detail: String::new() });
        s.actors[me].st = St::Done;
        if s.token == Some(me) {
            s.token = None;
            if let Some(n) = s.pick() {
                s.token = Some(n);
            }
        }
        CV.notify_all();
    }
}

// ------------------------------------------------------------------------------------------
// scripts

#[derive(Clone, Debug, serde::Serialize, serde::Deserialize)]
pub enum Step {
    Open,
    Change,
    Wait,
}

#[derive(Clone, Debug, serde::Serialize, serde::Deserialize)]
pub struct Script {
    /// the sequential editor task
    pub editor: Vec<Step>,
    /// concurrent tasks (each a short list of Open / Wait steps)
    pub others: Vec<Vec<Step>>,
}

fn gen_script(rng: &mut StdRng) -> Script {
    let mut editor = vec![Step::Open];
    let n = rng.gen_range(1..=4);
    for _ in 0..n {
        editor.push(match rng.gen_range(0..10) {
            0..=6 => Step::Change,
            7..=8 => Step::Wait,
            _ => Step::Open,
        });
    }
    let k = rng.gen_range(0..=2);
    let others = (0..k)
        .map(|_| {
            let m = rng.gen_range(1..=2);
            (0..m).map(|_| if rng.gen_bool(0.75) { Step::Wait } else { Step::Open }).collect()
        })
        .collect();
    Script { editor, others }
}

struct Project {
    uri: Url,
}

fn make_project(dir: &std::path::Path) -> Project {
    let proj = dir.join("ws").join("proj");
    let _ = std::fs::remove_dir_all(dir.join("ws"));
    std::fs::create_dir_all(proj.join("src")).unwrap();
    std::fs::write(proj.join("Forc.toml"), "[project]\nauthors = [\"verif\"]\nentry = \"main.sw\"\nlicense = \"Apache-2.0\"\nname = \"proj\"\nimplicit-std = false\n\n[dependencies]\n").unwrap();
    let main = proj.join("src").join("main.sw");
    std::fs::write(&main, text_for(1)).unwrap();
    Project { uri: Url::from_file_path(&main).unwrap() }
}

fn text_for(version: i32) -> String {
    format!("library;\n\npub fn f() -> u64 {{\n    {version}\n}}\n\npub fn g{version}() -> bool {{\n    true\n}}\n")
}

fn run_steps(state: &ServerState, uri: &Url, steps: &[Step], version: &Mutex<i32>) {
    let rt = tokio::runtime::Builder::new_current_thread().enable_all().build().unwrap();
    for st in steps {
        match st {
            Step::Open => {
                let v = *version.lock().unwrap();
                let params = DidOpenTextDocumentParams { text_document: TextDocumentItem { uri: uri.clone(), language_id: "sway".into(), version: v, text: text_for(v) } };
                let _ = rt.block_on(notification::handle_did_open_text_document(state, params));
            }
            Step::Change => {
                let v = {
                    let mut g = version.lock().unwrap();
                    *g += 1;
                    *g
                };
                let ch = TextDocumentContentChangeEvent { range: None, range_length: None, text: text_for(v) };
                let params = DidChangeTextDocumentParams { text_document: VersionedTextDocumentIdentifier { uri: uri.clone(), version: v }, content_changes: vec![ch] };
                let _ = rt.block_on(notification::handle_did_change_text_document(state, params));
            }
            Step::Wait => rt.block_on(state.wait_for_parsing()),
        }
    }
}

// ------------------------------------------------------------------------------------------
// one controlled run

pub struct RunOut {
    pub log: Vec<(String, String, String)>,
    pub choices: Vec<usize>,
    pub quiescent: bool,
    pub state_dump: String,
    pub diverged: Option<String>,
    pub parked: Vec<String>,
    pub probe_returned: Option<bool>,
    pub switches: u64,
}

fn snapshot_quiescent(s: &Sched) -> bool {
    s.token.is_none() && s.waking.is_empty() && s.actors.iter().all(|a| matches!(a.st, St::Blocked(_) | St::Done))
}

fn wait_quiescence(limit: Duration) -> bool {
    let t0 = Instant::now();
    let mut stable = 0;
    loop {
        {
            let g = SCHED.lock().unwrap();
            let s = g.as_ref().unwrap();
            if snapshot_quiescent(s) {
                stable += 1;
                if stable >= 3 {
                    return true;
                }
            } else {
                stable = 0;
            }
        }
        if t0.elapsed() > limit {
            return false;
        }
        std::thread::sleep(Duration::from_millis(3));
    }
}

pub fn controlled_run(dir: &std::path::Path, script: &Script, seed: u64, replay: Option<Vec<usize>>) -> RunOut {
    let project = make_project(dir);
    let known_before = WORKERS.lock().unwrap().len();
    let state = Arc::new(ServerState::default());
    // wait until this server's worker has announced itself at its first recv (no run is active,
    // so the hook only records the thread)
    let t_w = Instant::now();
    let worker_tid = loop {
        {
            let w = WORKERS.lock().unwrap();
            if w.len() > known_before {
                break Some(w[w.len() - 1]);
            }
        }
        if t_w.elapsed() > Duration::from_secs(5) {
            break None;
        }
        std::thread::sleep(Duration::from_micros(200));
    };
    std::thread::sleep(Duration::from_millis(1));
    {
        let mut g = SCHED.lock().unwrap();
        *g = Some(Sched {
            enabled: true,
            actors: vec![Actor { name: "worker".into(), thread: worker_tid, st: St::Blocked("worker.recv".into()) }],
            token: None,
            log: vec![],
            occupancy: 0,
            waking: BTreeSet::new(),
            rng: StdRng::seed_from_u64(seed),
            choices: vec![],
            replay: replay.map(VecDeque::from),
            diverged: None,
            switches_during_compile: 0,
            compiling: false,
            last_runner: None,
            gen: GEN.fetch_add(1, std::sync::atomic::Ordering::SeqCst),
        });
    }
    let version = Arc::new(Mutex::new(1));
    let mut handles = vec![];
    let mut spawn_actor = |name: String, steps: Vec<Step>| {
        SCHED.lock().unwrap().as_mut().unwrap().actors.push(Actor { name: name.clone(), thread: None, st: St::AtPoint });
        let st = state.clone();
        let uri = project.uri.clone();
        let ver = version.clone();
        handles.push(std::thread::spawn(move || {
            let me = register(&name);
            run_steps(&st, &uri, &steps, &ver);
            finish_actor(me);
        }));
    };
    // the editor's first step (didOpen) must initialise the workspace before the others use it
    spawn_actor("editor".into(), script.editor.clone());
    // others start only after the first open has been issued: they register later
    std::thread::sleep(Duration::from_millis(1));
    for (i, o) in script.others.iter().enumerate() {
        spawn_actor(format!("task{i}"), o.clone());
    }
    let quiescent = wait_quiescence(Duration::from_secs(20));
    // probe: a fresh waiter must return without anything else happening
    let mut probe_returned = None;
    if quiescent {
        SCHED.lock().unwrap().as_mut().unwrap().actors.push(Actor { name: "probe".into(), thread: None, st: St::AtPoint });
        let st = state.clone();
        let h = std::thread::spawn(move || {
            let me = register("probe");
            let rt = tokio::runtime::Builder::new_current_thread().enable_all().build().unwrap();
            rt.block_on(st.wait_for_parsing());
            finish_actor(me);
        });
        handles.push(h);
        let q2 = wait_quiescence(Duration::from_secs(10));
        let g = SCHED.lock().unwrap();
        let s = g.as_ref().unwrap();
        if q2 {
            probe_returned = Some(s.actors.iter().any(|a| a.name == "probe" && a.st == St::Done));
        }
    }
    // collect and tear down
    let state_dump = {
        let g = SCHED.lock().unwrap();
        let s = g.as_ref().unwrap();
        format!("token={:?} waking={:?} occupancy={} actors={:?} last_events={:?}", s.token, s.waking, s.occupancy, s.actors.iter().map(|a| format!("{}:{:?}:{}", a.name, a.st, a.thread.is_some())).collect::<Vec<_>>(), s.log.iter().rev().take(6).map(|e| format!("{}:{}", e.actor, e.point)).collect::<Vec<_>>())
    };
    let (log, choices, diverged, parked, switches) = {
        let mut g = SCHED.lock().unwrap();
        let s = g.as_mut().unwrap();
        s.enabled = false;
        let names: Vec<String> = s.actors.iter().map(|a| a.name.clone()).collect();
        let log = s.log.iter().map(|e| (names[e.actor].clone(), e.point.clone(), e.detail.clone())).collect();
        let parked = s.actors.iter().filter(|a| a.st == St::Blocked("wfp.park".into())).map(|a| a.name.clone()).collect();
        (log, s.choices.clone(), s.diverged.clone(), parked, s.switches_during_compile)
    };
    CV.notify_all();
    // un-wedge whatever is still parked so that threads can exit: clear the flag and trigger a compile
    state.is_compiling.store(false, std::sync::atomic::Ordering::SeqCst);
    {
        let rt = tokio::runtime::Builder::new_current_thread().enable_all().build().unwrap();
        let ch = TextDocumentContentChangeEvent { range: None, range_length: None, text: text_for(9999) };
        let params = DidChangeTextDocumentParams { text_document: VersionedTextDocumentIdentifier { uri: project.uri.clone(), version: 9999 }, content_changes: vec![ch] };
        let _ = rt.block_on(async { tokio::time::timeout(Duration::from_secs(5), notification::handle_did_change_text_document(&state, params)).await });
    }
    let t0 = Instant::now();
    for h in handles {
        while !h.is_finished() && t0.elapsed() < Duration::from_secs(3) {
            state.is_compiling.store(false, std::sync::atomic::Ordering::SeqCst);
            std::thread::sleep(Duration::from_millis(5));
        }
        if h.is_finished() {
            let _ = h.join();
        }
        // a thread that is still parked is leaked (only happens in violating runs)
    }
    let _ = state.shutdown_server();
    *SCHED.lock().unwrap() = None;
    RunOut { log, choices, quiescent, state_dump, diverged, parked, probe_returned, switches }
}

// ------------------------------------------------------------------------------------------
// offline checker over the event log

pub struct Verdict {
    pub violations: Vec<(String, String)>,
    pub compilations: u64,
    pub cancellations: u64,
    pub woken: u64,
    pub early_returns: u64,
}

pub fn check_log(out: &RunOut) -> Verdict {
    let log = &out.log;
    let mut v = Verdict { violations: vec![], compilations: 0, cancellations: 0, woken: 0, early_returns: 0 };
    v.compilations = log.iter().filter(|e| e.1 == "worker.compile_end").count() as u64;
    v.woken = log.iter().filter(|e| e.1 == "wfp.woke").count() as u64;
    // compiles and their cancellation
    let mut cur: Option<(usize, String)> = None;
    let mut cancelled_compiles: Vec<(usize, usize, String)> = vec![];
    let mut finished: Vec<(usize, usize, String, bool)> = vec![];
    let mut cancelled_now = false;
    for (i, e) in log.iter().enumerate() {
        match e.1.as_str() {
            "worker.compile_begin" => {
                cur = Some((i, e.2.clone()));
                cancelled_now = false;
            }
            "abort.check" | "abort.check_pkg" if e.2 == "true" && cur.is_some() => cancelled_now = true,
            "worker.compile_end" => {
                if let Some((b, ver)) = cur.take() {
                    finished.push((b, i, ver.clone(), cancelled_now));
                    if cancelled_now {
                        v.cancellations += 1;
                        cancelled_compiles.push((b, i, ver));
                    }
                }
            }
            _ => {}
        }
    }
    // (a) parked waiters at quiescence
    if out.quiescent {
        for name in &out.parked {
            let evs: Vec<(usize, &(String, String, String))> = log.iter().enumerate().filter(|(_, e)| &e.0 == name).collect();
            let last_before = evs.iter().rev().find(|(_, e)| e.1 == "wfp.before_notified").map(|(i, _)| *i);
            let last_park = evs.iter().rev().find(|(_, e)| e.1 == "wfp.park").map(|(i, _)| *i);
            let last_check = evs.iter().rev().find(|(_, e)| e.1 == "wfp.check").map(|(_, e)| e.2.clone()).unwrap_or_default();
            let notified_between = match (last_before, last_park) {
                (Some(a), Some(b)) => log[a..b].iter().any(|e| e.1 == "worker.notified"),
                _ => false,
            };
            let open_after_clear = {
                let last_clear = log.iter().rposition(|e| e.1 == "worker.cleared_compiling");
                let last_open_set = log.iter().rposition(|e| e.1 == "open.set_compiling");
                matches!((last_clear, last_open_set), (Some(c), Some(o)) if o > c) || (last_clear.is_none() && last_open_set.is_some())
            };
            let sig = if notified_between {
                "hang:lost-wakeup: wfp.before_notified(W) < worker.notified < wfp.park(W)".to_string()
            } else if open_after_clear && last_check.contains("is_compiling=true") {
                "hang:is_compiling-set-by-did_open-after-the-worker-finished: worker.cleared_compiling < open.set_compiling".to_string()
            } else {
                format!("hang:waiter-parked-at-quiescence [{last_check}]")
            };
            v.violations.push((sig, format!("{name} is parked in wait_for_parsing although the worker is idle on an empty channel (last check: {last_check})")));
        }
        if out.probe_returned == Some(false) && out.parked.iter().all(|p| p == "probe") {
            let open_after_clear = {
                let last_clear = log.iter().rposition(|e| e.1 == "worker.cleared_compiling");
                let last_open_set = log.iter().rposition(|e| e.1 == "open.set_compiling");
                matches!((last_clear, last_open_set), (Some(c), Some(o)) if o > c)
            };
            // (already reported above through `parked` with the probe's name)
            let _ = open_after_clear;
        }
        // (b) the last request sent was compiled without cancellation
        // (the receiver may log `worker.got` before the sender logs `send.sent`, so the search for
        // the matching receive starts at the sender's `send.before_send`)
        let last_send = log.iter().rposition(|e| e.1 == "send.before_send").filter(|ls| log[*ls..].iter().any(|e| e.1 == "send.sent" && e.0 == log[*ls].0));
        if let Some(ls) = last_send {
            let ver = log[ls].2.clone();
            let got = log.iter().enumerate().skip(ls).filter(|(_, e)| e.1 == "worker.got" && e.2 == ver).map(|(i, _)| i).last();
            match got {
                None => v.violations.push(("lost-edit:last-request-never-received".into(), format!("the last request sent ({ver}) was never dequeued by the worker"))),
                Some(gi) => {
                    let fin = finished.iter().find(|(b, _, _, _)| *b > gi);
                    match fin {
                        None => v.violations.push(("lost-edit:last-request-not-compiled".into(), format!("the last request sent ({ver}) was dequeued but no compilation of it completed"))),
                        Some((b, _, _, true)) => {
                            // attribute: a retrigger store after the worker's last clear before this compile
                            let last_clear = log[..*b].iter().rposition(|e| e.1 == "worker.cleared_retrigger");
                            let stale = log[last_clear.unwrap_or(0)..*b].iter().any(|e| e.1 == "send.set_retrigger");
                            let late = log[*b..].iter().any(|e| e.1 == "send.set_retrigger");
                            let sig = if stale {
                                "lost-edit:stale-retrigger: worker.cleared_retrigger < send.set_retrigger(S) < worker.got(latest) ; latest compile cancelled, nothing pending"
                            } else if late {
                                "lost-edit:retrigger-set-during-latest-compile-without-a-following-request"
                            } else {
                                "lost-edit:latest-compile-cancelled"
                            };
                            v.violations.push((sig.into(), format!("the compilation of the last request sent ({ver}) was cancelled and nothing is pending")));
                        }
                        Some(_) => {}
                    }
                }
            }
        }
    }
    // early returns of wait_for_parsing (recorded only; outside the statement)
    for (i, e) in log.iter().enumerate() {
        if e.1 == "wfp.break" {
            // a request was dequeued but its compile had not begun
            let pending = log[..i].iter().rposition(|x| x.1 == "worker.got");
            let begun = log[..i].iter().rposition(|x| x.1 == "worker.compile_begin");
            if let Some(p) = pending {
                if begun.map(|b| b < p).unwrap_or(true) {
                    v.early_returns += 1;
                }
            }
        }
    }
    v
}

fn signature_of(out: &RunOut) -> u64 {
    let s: String = out.log.iter().map(|e| format!("{}:{};", e.0, e.1)).collect();
    hash64(s.as_bytes())
}

fn run_case(ctx_dir: &std::path::Path, script: &Script, seed: u64, res: &mut ShardResult) {
    res.evaluations += 1;
    let out = controlled_run(ctx_dir, script, seed, None);
    absorb(ctx_dir, script, seed, out, res, true);
}

fn absorb(ctx_dir: &std::path::Path, script: &Script, seed: u64, out: RunOut, res: &mut ShardResult, confirm: bool) {
    if let Some(d) = &out.diverged {
        res.count("model_divergence_runs");
        res.inconclusive(format!("scheduler model and real threads disagreed: {d}"));
        return;
    }
    if !out.quiescent {
        res.count("runs_without_quiescence");
        res.inconclusive(format!("the run did not reach a quiescent state within the watchdog: {}", out.state_dump));
        return;
    }
    res.count("runs_reached_quiescence");
    let v = check_log(&out);
    res.add("compilations_observed", v.compilations);
    res.add("cancellations_observed", v.cancellations);
    res.add("waiters_parked_and_woken", v.woken);
    res.add("wait_for_parsing_early_returns_recorded", v.early_returns);
    res.add("events", out.log.len() as u64);
    if out.probe_returned == Some(true) {
        res.count("probe_waits_returned");
    }
    if out.switches >= 2 {
        res.note_nontrivial(signature_of(&out));
    }
    res.max("max_events_in_run", out.log.len() as u64);
    if res.samples.len() < 2 {
        res.sample(json!({"script": script, "schedule_choices": out.choices, "events": out.log.iter().take(60).map(|e| format!("{} {} {}", e.0, e.1, e.2)).collect::<Vec<_>>()}));
    }
    for (sig, desc) in v.violations {
        // confirm by replaying the recorded schedule twice: a scheduling artefact does not reproduce
        let mut reproduced = 0;
        if confirm {
            for _ in 0..2 {
                let again = controlled_run(ctx_dir, script, seed, Some(out.choices.clone()));
                if again.diverged.is_none() && again.quiescent && check_log(&again).violations.iter().any(|(s, _)| *s == sig) {
                    reproduced += 1;
                }
            }
        } else {
            reproduced = 2;
        }
        if reproduced == 2 {
            res.violation(sig, desc, json!({"script": script, "seed": seed, "choices": out.choices, "log": out.log.iter().map(|e| format!("{} {} {}", e.0, e.1, e.2)).collect::<Vec<_>>()}));
        } else {
            res.count("unconfirmed_candidates");
            res.inconclusive(format!("candidate `{sig}` did not reproduce under its recorded schedule ({reproduced}/2)"));
        }
    }
}

fn shard(ctx: &ShardCtx) -> ShardResult {
    let mut res = ShardResult::default();
    let dir = ctx.work();
    let home = dir.join("home");
    let tmp = dir.join("tmp");
    std::fs::create_dir_all(&home).ok();
    std::fs::create_dir_all(&tmp).ok();
    std::env::set_var("HOME", &home);
    std::env::set_var("TMPDIR", &tmp);
    sway_types::verif_hooks::install(Some(Arc::new(callback)));
    let mut i = ctx.first_index;
    while ctx.time_left() {
        let mut rng = ctx.rng(i);
        let script = gen_script(&mut rng);
        let seed: u64 = rng.gen();
        ctx.begin_case(i, &format!("{script:?} seed {seed}"), &res);
        run_case(&dir, &script, seed, &mut res);
        ctx.end_case();
        i += 1;
    }
    sway_types::verif_hooks::install(None);
    res
}

fn replay(v: &Value) -> ShardResult {
    let mut res = ShardResult::default();
    let dir = work_dir("C24").join("replay");
    clean_dir(&dir);
    std::env::set_var("HOME", dir.join("home"));
    std::env::set_var("TMPDIR", dir.join("tmp"));
    std::fs::create_dir_all(dir.join("home")).ok();
    std::fs::create_dir_all(dir.join("tmp")).ok();
    sway_types::verif_hooks::install(Some(Arc::new(callback)));
    let script: Script = match serde_json::from_value(v["script"].clone()) {
        Ok(s) => s,
        Err(e) => {
            res.harness_fault = Some(format!("bad script: {e}"));
            return res;
        }
    };
    let seed = v["seed"].as_u64().unwrap_or(0);
    let choices: Vec<usize> = serde_json::from_value(v["choices"].clone()).unwrap_or_default();
    res.evaluations = 1;
    let out = controlled_run(&dir, &script, seed, Some(choices));
    absorb(&dir, &script, seed, out, &mut res, false);
    sway_types::verif_hooks::install(None);
    res
}

#[allow(dead_code)]
fn unused(_: HashMap<u8, u8>) {}
