//! Shared plumbing: tiers, seeds, shard results, evidence, known findings, verdict printing.

use rand::{rngs::StdRng, Rng, SeedableRng};
use serde::{Deserialize, Serialize};
use serde_json::{json, Value};
use sha2::{Digest, Sha256};
use std::collections::{BTreeMap, BTreeSet};
use std::path::{Path, PathBuf};
use std::time::{Duration, Instant};

pub const VERIF: &str = "/verif";
pub const REPO: &str = "/repo";

#[derive(Clone, Copy, Debug, PartialEq, Eq)]
pub enum Tier {
    Quick,
    Thorough,
}

impl Tier {
    pub fn name(self) -> &'static str {
        match self {
            Tier::Quick => "quick",
            Tier::Thorough => "thorough",
        }
    }
    pub fn parse(s: &str) -> Option<Tier> {
        match s {
            "quick" => Some(Tier::Quick),
            "thorough" => Some(Tier::Thorough),
            _ => None,
        }
    }
    /// pick(quick, thorough)
    pub fn pick<T>(self, q: T, t: T) -> T {
        match self {
            Tier::Quick => q,
            Tier::Thorough => t,
        }
    }
}

pub fn env_seed() -> u64 {
    std::env::var("VERIF_SEED")
        .ok()
        .and_then(|s| s.trim().parse::<i64>().ok())
        .map(|v| v as u64)
        .unwrap_or(1)
}

/// Scale factor for time budgets (VERIF_SCALE=0.2 for smoke runs).
pub fn env_scale() -> f64 {
    std::env::var("VERIF_SCALE")
        .ok()
        .and_then(|s| s.parse::<f64>().ok())
        .unwrap_or(1.0)
}

pub fn rng_for(seed: u64, shard: u64, index: u64) -> StdRng {
    let mut h = Sha256::new();
    h.update(seed.to_le_bytes());
    h.update(shard.to_le_bytes());
    h.update(index.to_le_bytes());
    let d = h.finalize();
    let mut s = [0u8; 32];
    s.copy_from_slice(&d);
    StdRng::from_seed(s)
}

pub fn sha_hex(data: &[u8]) -> String {
    hex::encode(Sha256::digest(data))
}

pub fn hash64(data: &[u8]) -> u64 {
    let d = Sha256::digest(data);
    u64::from_le_bytes(d[..8].try_into().unwrap())
}

pub fn work_dir(prop: &str) -> PathBuf {
    let p = Path::new(VERIF).join("work").join(prop);
    std::fs::create_dir_all(&p).ok();
    p
}

pub fn clean_dir(p: &Path) {
    let _ = std::fs::remove_dir_all(p);
    std::fs::create_dir_all(p).ok();
}

#[derive(Serialize, Deserialize, Clone, Debug)]
pub struct Violation {
    /// Stable signature used for matching known findings.
    pub signature: String,
    /// One-line human description.
    pub description: String,
    /// Everything needed to re-run the case.
    pub replay: Value,
}

#[derive(Serialize, Deserialize, Clone, Debug, Default)]
pub struct ShardResult {
    pub evaluations: u64,
    /// hashes of distinct non-trivial cases
    pub nontrivial: BTreeSet<u64>,
    pub counters: BTreeMap<String, u64>,
    pub samples: Vec<Value>,
    pub violations: Vec<Violation>,
    pub inconclusive: u64,
    pub inconclusive_notes: Vec<String>,
    /// set by a shard that could not run at all (harness fault)
    pub harness_fault: Option<String>,
    /// set when the shard stopped at a watchdog expiry: index of the next case to run
    #[serde(default)]
    pub resume_at: Option<u64>,
}

impl ShardResult {
    pub fn count(&mut self, key: &str) {
        *self.counters.entry(key.to_string()).or_insert(0) += 1;
    }
    pub fn add(&mut self, key: &str, n: u64) {
        *self.counters.entry(key.to_string()).or_insert(0) += n;
    }
    pub fn max(&mut self, key: &str, n: u64) {
        let e = self.counters.entry(key.to_string()).or_insert(0);
        if n > *e {
            *e = n;
        }
    }
    /// Record a distinct non-trivial case (capped per shard; beyond the cap the count is conservative).
    pub fn note_nontrivial(&mut self, h: u64) {
        if self.nontrivial.len() < 50_000 {
            self.nontrivial.insert(h);
        }
    }
    pub fn sample(&mut self, v: Value) {
        if self.samples.len() < 4 {
            self.samples.push(v);
        }
    }
    pub fn inconclusive(&mut self, note: impl Into<String>) {
        self.inconclusive += 1;
        if self.inconclusive_notes.len() < 20 {
            self.inconclusive_notes.push(note.into());
        }
    }
    pub fn violation(&mut self, signature: impl Into<String>, description: impl Into<String>, replay: Value) {
        if self.violations.len() < 200 {
            self.violations.push(Violation {
                signature: signature.into(),
                description: description.into(),
                replay,
            });
        } else {
            self.count("violations_dropped_over_cap");
        }
    }
    pub fn merge(&mut self, other: ShardResult) {
        self.evaluations += other.evaluations;
        self.nontrivial.extend(other.nontrivial);
        for (k, v) in other.counters {
            if k.starts_with("max_") {
                let e = self.counters.entry(k).or_insert(0);
                if v > *e {
                    *e = v;
                }
            } else {
                *self.counters.entry(k).or_insert(0) += v;
            }
        }
        for s in other.samples {
            if self.samples.len() < 6 {
                self.samples.push(s);
            }
        }
        self.violations.extend(other.violations);
        self.inconclusive += other.inconclusive;
        for n in other.inconclusive_notes {
            if self.inconclusive_notes.len() < 30 {
                self.inconclusive_notes.push(n);
            }
        }
        if self.harness_fault.is_none() {
            self.harness_fault = other.harness_fault;
        }
    }
}

#[derive(Clone, Debug)]
pub struct ShardCtx {
    pub prop: String,
    pub tier: Tier,
    pub seed: u64,
    pub shard: u64,
    pub nshards: u64,
    pub start: Instant,
    pub budget: Duration,
    /// first case index to run (> 0 when the shard was restarted after a watchdog expiry)
    pub first_index: u64,
}

pub struct Clock {
    t0: Instant,
    budget: Duration,
    hard: Instant,
}

impl Clock {
    pub fn left(&self) -> bool {
        self.t0.elapsed() < self.budget && Instant::now() < self.hard
    }
    pub fn elapsed(&self) -> Duration {
        self.t0.elapsed()
    }
}

struct WatchState {
    started: Option<Instant>,
    index: u64,
    desc: String,
    snapshot: Option<ShardResult>,
    limit: Duration,
    out: PathBuf,
    hang_dir: PathBuf,
    cur_path: PathBuf,
    partial_path: PathBuf,
    last_partial: Instant,
    last_partial_violations: usize,
}

static WATCH: std::sync::Mutex<Option<WatchState>> = std::sync::Mutex::new(None);

/// Exit code of a shard that gave up on a case after the per-case watchdog expired.
pub const EXIT_WATCHDOG: i32 = 77;

/// Start the per-case watchdog of a shard process. A case that runs longer than `limit`
/// (possible non-termination inside the code under test) ends the process with
/// EXIT_WATCHDOG after the last snapshot of the results has been written; the orchestrator
/// restarts the shard at the next case. Expiry is recorded as inconclusive, never a violation.
pub fn start_watchdog(ctx: &ShardCtx, out: &Path, limit: Duration) {
    *WATCH.lock().unwrap() = Some(WatchState { started: None, index: 0, desc: String::new(), snapshot: None, limit, out: out.to_path_buf(), hang_dir: work_dir("hangs"), cur_path: work_dir(&ctx.prop).join(format!("shard{}.current", ctx.shard)), partial_path: work_dir(&ctx.prop).join(format!("shard{}.partial.json", ctx.shard)), last_partial: Instant::now(), last_partial_violations: 0 });
    let prop = ctx.prop.clone();
    let shard = ctx.shard;
    std::thread::spawn(move || loop {
        std::thread::sleep(Duration::from_millis(500));
        let mut g = WATCH.lock().unwrap();
        let Some(w) = g.as_mut() else { continue };
        let Some(st) = w.started else { continue };
        if st.elapsed() > w.limit {
            let mut res = w.snapshot.take().unwrap_or_default();
            let file = w.hang_dir.join(format!("{prop}_shard{shard}_case{}.txt", w.index));
            let _ = std::fs::write(&file, &w.desc);
            res.count("watchdog_expired");
            res.inconclusive(format!("case {} exceeded the {} s per-case watchdog (possible non-termination); input saved to {}", w.index, w.limit.as_secs(), file.display()));
            res.resume_at = Some(w.index + 1);
            let _ = std::fs::write(&w.out, serde_json::to_string(&res).unwrap());
            std::process::exit(EXIT_WATCHDOG);
        }
    });
}

/// Change the per-case watchdog limit of this shard process.
pub fn set_watchdog_limit(limit: Duration) {
    if let Some(w) = WATCH.lock().unwrap().as_mut() {
        w.limit = limit;
    }
}

impl ShardCtx {
    /// Mark the start of a (potentially non-terminating) case; `res` is snapshotted so that
    /// nothing observed so far is lost if the watchdog has to end the process.
    pub fn begin_case(&self, index: u64, desc: &str, res: &ShardResult) {
        if let Some(w) = WATCH.lock().unwrap().as_mut() {
            w.started = Some(Instant::now());
            w.index = index;
            w.desc = desc.to_string();
            w.snapshot = Some(res.clone());
            // crash journal: which case is in flight, and (every few seconds or whenever a new
            // violation was recorded) everything observed so far; read by the orchestrator when
            // the process dies (stack overflow, abort, kill)
            let _ = std::fs::write(&w.cur_path, format!("{index}\n{desc}"));
            if w.last_partial.elapsed() > Duration::from_secs(3) || res.violations.len() != w.last_partial_violations {
                let _ = std::fs::write(&w.partial_path, serde_json::to_string(res).unwrap());
                w.last_partial = Instant::now();
                w.last_partial_violations = res.violations.len();
            }
        }
    }
    pub fn end_case(&self) {
        if let Some(w) = WATCH.lock().unwrap().as_mut() {
            w.started = None;
        }
    }
    pub fn time_left(&self) -> bool {
        self.start.elapsed() < self.budget
    }
    /// A budget clock that starts now (after warm-up work such as compiling std, whose cost
    /// depends on machine load and must not eat the exploration budget). Capped so that a
    /// shard never runs longer than twice its nominal budget.
    pub fn clock(&self) -> Clock {
        let spent = self.start.elapsed();
        let budget = if spent > self.budget { self.budget } else { self.budget };
        let _ = spent;
        Clock { t0: Instant::now(), budget, hard: self.start + self.budget * 3 + Duration::from_secs(420) }
    }
    pub fn rng(&self, index: u64) -> StdRng {
        rng_for(self.seed, self.shard, index)
    }
    pub fn work(&self) -> PathBuf {
        let p = work_dir(&self.prop).join(format!("shard{}", self.shard));
        std::fs::create_dir_all(&p).ok();
        p
    }
}

// ------------------------------------------------------------------------------------------
// Known findings

#[derive(Deserialize, Clone, Debug)]
pub struct KnownFinding {
    pub property: String,
    pub signature: String,
    pub description: String,
    pub status: String,
}

pub fn load_known_findings() -> Vec<KnownFinding> {
    let mut out = vec![];
    let mut files = vec![Path::new(VERIF).join("known_findings.json")];
    if let Ok(rd) = std::fs::read_dir(Path::new(VERIF).join("known_findings.d")) {
        let mut extra: Vec<_> = rd.filter_map(|e| e.ok()).map(|e| e.path()).filter(|p| p.extension().map(|x| x == "json").unwrap_or(false)).collect();
        extra.sort();
        files.extend(extra);
    }
    for p in files {
        if let Ok(s) = std::fs::read_to_string(&p) {
            match serde_json::from_str::<Vec<KnownFinding>>(&s) {
                Ok(v) => out.extend(v),
                Err(e) => {
                    eprintln!("harness: cannot parse {}: {e}", p.display());
                    std::process::exit(2);
                }
            }
        }
    }
    out
}

// ------------------------------------------------------------------------------------------
// Evidence + verdict

pub struct PropertyMeta {
    pub id: &'static str,
    pub level: &'static str,
    pub rule: &'static str,
    pub assumptions: &'static [&'static str],
    /// minimum evaluations / distinct nontrivial for the run to count (else exit 2)
    pub floor_evaluations: u64,
    pub floor_nontrivial: u64,
    /// counters that must be > 0 for the run to count
    pub required_counters: &'static [&'static str],
}

/// Finish a run: match violations against known findings, write replay files and the
/// evidence file, print verdict lines, return the exit code.
pub fn finish(meta: &PropertyMeta, tier: Tier, seed: u64, wall: f64, mut res: ShardResult, extra: Value) -> i32 {
    let known = load_known_findings();
    let mut new_violations = 0usize;
    let mut known_hit: BTreeMap<String, (String, u64)> = BTreeMap::new();
    let replay_dir = Path::new(VERIF).join("replays").join(meta.id);
    let mut seen_sig = BTreeSet::new();
    let mut lines = vec![];
    for v in &res.violations {
        let k = known.iter().find(|k| k.property == meta.id && k.status == "open" && k.signature == v.signature);
        if let Some(k) = k {
            let e = known_hit.entry(k.signature.clone()).or_insert((k.description.clone(), 0));
            e.1 += 1;
            continue;
        }
        if !seen_sig.insert(v.signature.clone()) {
            // same signature reported once per run
            new_violations += 1;
            continue;
        }
        new_violations += 1;
        std::fs::create_dir_all(&replay_dir).ok();
        let name = format!("{}.json", &sha_hex(v.signature.as_bytes())[..16]);
        let path = replay_dir.join(name);
        let body = json!({"property": meta.id, "signature": v.signature, "description": v.description, "case": v.replay});
        let _ = std::fs::write(&path, serde_json::to_string_pretty(&body).unwrap());
        lines.push(format!("VIOLATION property={} replay={}", meta.id, path.display()));
        eprintln!("  violation: {} :: {}", v.signature, v.description);
    }
    for (sig, (desc, n)) in &known_hit {
        println!("KNOWN-FINDING: property={} {} [signature={} hits={}]", meta.id, desc, sig, n);
    }
    for l in &lines {
        println!("{l}");
    }

    // floors
    let mut fault: Option<String> = res.harness_fault.clone();
    if fault.is_none() && res.evaluations < meta.floor_evaluations {
        fault = Some(format!("evaluations {} below floor {}", res.evaluations, meta.floor_evaluations));
    }
    if fault.is_none() && (res.nontrivial.len() as u64) < meta.floor_nontrivial.max(2) {
        fault = Some(format!("distinct_nontrivial {} below floor {}", res.nontrivial.len(), meta.floor_nontrivial.max(2)));
    }
    if fault.is_none() {
        for c in meta.required_counters {
            if res.counters.get(*c).copied().unwrap_or(0) == 0 {
                fault = Some(format!("required observation counter '{c}' is zero: the monitor observed nothing of that kind"));
                break;
            }
        }
    }

    if res.samples.is_empty() {
        res.samples.push(json!("no sample recorded"));
    }
    let mut coverage = serde_json::Map::new();
    coverage.insert("evaluations".into(), json!(res.evaluations));
    coverage.insert("distinct_nontrivial".into(), json!(res.nontrivial.len()));
    coverage.insert("rule".into(), json!(meta.rule));
    coverage.insert("samples".into(), json!(res.samples));
    coverage.insert("counters".into(), json!(res.counters));
    coverage.insert("inconclusive".into(), json!(res.inconclusive));
    coverage.insert("inconclusive_notes".into(), json!(res.inconclusive_notes));
    coverage.insert("known_findings_hit".into(), json!(known_hit.iter().map(|(k, v)| json!({"signature": k, "hits": v.1})).collect::<Vec<_>>()));
    if let Value::Object(m) = extra {
        for (k, v) in m {
            coverage.insert(k, v);
        }
    }
    let verdict = if new_violations > 0 {
        "violated"
    } else if fault.is_some() {
        "inconclusive"
    } else {
        "held_on_observed"
    };
    coverage.insert("verdict".into(), json!(verdict));
    if let Some(f) = &fault {
        coverage.insert("harness_fault".into(), json!(f));
    }
    let ev = json!({
        "property_id": meta.id,
        "tier": tier.name(),
        "seed": seed as i64,
        "level": meta.level,
        "coverage": Value::Object(coverage),
        "assumptions": meta.assumptions,
        "wall_s": wall,
        "violations": new_violations,
    });
    let evdir = Path::new(VERIF).join("evidence");
    std::fs::create_dir_all(&evdir).ok();
    let evpath = evdir.join(format!("{}.json", meta.id));
    std::fs::write(&evpath, serde_json::to_string_pretty(&ev).unwrap()).expect("write evidence");

    println!(
        "{} {} seed={} evaluations={} distinct_nontrivial={} inconclusive={} violations={} known_findings={} wall={:.1}s verdict={}",
        meta.id,
        tier.name(),
        seed,
        res.evaluations,
        res.nontrivial.len(),
        res.inconclusive,
        new_violations,
        known_hit.len(),
        wall,
        verdict
    );
    let mut keys: Vec<_> = res.counters.iter().collect();
    keys.sort();
    let summary: Vec<String> = keys.iter().take(60).map(|(k, v)| format!("{k}={v}")).collect();
    println!("  observed: {}", summary.join(" "));
    if new_violations > 0 {
        1
    } else if let Some(f) = fault {
        eprintln!("harness: run does not count: {f}");
        2
    } else {
        0
    }
}

// ------------------------------------------------------------------------------------------
// Process sharding: re-exec self as `swverif shard <prop> <tier> <seed> <shard> <nshards> <budget_ms> <out>`

fn spawn_shard(prop: &str, tier: Tier, seed: u64, shard: u64, nshards: u64, budget: Duration, mem_limit_gib: u64, first_index: u64, attempt: u32) -> (std::process::Child, PathBuf) {
    let exe = std::env::current_exe().expect("current_exe");
    let wd = work_dir(prop);
    let out = wd.join(format!("shard{shard}.result{attempt}.json"));
    let log = std::fs::OpenOptions::new().create(true).append(true).open(wd.join(format!("shard{shard}.log"))).unwrap();
    let log2 = log.try_clone().unwrap();
    let mut cmd = std::process::Command::new(&exe);
    cmd.arg("shard")
        .arg(prop)
        .arg(tier.name())
        .arg(seed.to_string())
        .arg(shard.to_string())
        .arg(nshards.to_string())
        .arg(budget.as_millis().to_string())
        .arg(&out)
        .env("SWVERIF_MEM_GIB", mem_limit_gib.to_string())
        .env("SWVERIF_FIRST_INDEX", first_index.to_string())
        .stdout(log)
        .stderr(log2)
        .stdin(std::process::Stdio::null());
    (cmd.spawn().expect("spawn shard"), out)
}

/// Run `nshards` shard processes; a shard that stops at a per-case watchdog expiry
/// (EXIT_WATCHDOG) is restarted at the next case for the rest of its budget.
/// A shard that dies (signal) is restarted after the case that was in flight; `crash_policy`
/// (description of the case in flight, tail of the shard's log) may turn the death into a
/// violation - otherwise it is recorded as inconclusive.
pub type CrashPolicy = fn(&str, &str) -> Option<(String, String, Value)>;

pub fn run_sharded(prop: &str, tier: Tier, seed: u64, nshards: u64, budget: Duration, mem_limit_gib: u64, crash_policy: Option<CrashPolicy>) -> ShardResult {
    let wd = work_dir(prop);
    clean_dir(&wd);
    let start = Instant::now();
    struct Running {
        shard: u64,
        child: std::process::Child,
        out: PathBuf,
        attempt: u32,
    }
    let mut running: Vec<Running> = (0..nshards)
        .map(|shard| {
            let (child, out) = spawn_shard(prop, tier, seed, shard, nshards, budget, mem_limit_gib, 0, 0);
            Running { shard, child, out, attempt: 0 }
        })
        .collect();
    let mut total = ShardResult::default();
    // generous wall-clock watchdog for a whole shard: expiry => inconclusive, never a violation
    let watchdog = budget * 6 + Duration::from_secs(900);
    while !running.is_empty() {
        std::thread::sleep(Duration::from_millis(50));
        let mut still = vec![];
        for mut r in running.drain(..) {
            let status = match r.child.try_wait() {
                Ok(Some(st)) => Some(st),
                Ok(None) => {
                    if start.elapsed() > watchdog {
                        let _ = r.child.kill();
                        let _ = r.child.wait();
                        None
                    } else {
                        still.push(r);
                        continue;
                    }
                }
                Err(_) => None,
            };
            let parsed: Option<ShardResult> = std::fs::read_to_string(&r.out).ok().and_then(|s| serde_json::from_str(&s).ok());
            match (status, parsed) {
                (Some(st), Some(res)) if st.success() => total.merge(res),
                (Some(st), Some(res)) if st.code() == Some(EXIT_WATCHDOG) => {
                    let resume = res.resume_at;
                    total.merge(res);
                    let left = budget.checked_sub(start.elapsed()).unwrap_or_default();
                    if let (Some(idx), true) = (resume, left > Duration::from_secs(5) && r.attempt < 50) {
                        let (child, out) = spawn_shard(prop, tier, seed, r.shard, nshards, left, mem_limit_gib, idx, r.attempt + 1);
                        still.push(Running { shard: r.shard, child, out, attempt: r.attempt + 1 });
                    }
                }
                (st, partial) => {
                    // the shard died (abort, memory limit, stack overflow) or hit the shard watchdog
                    let cur = std::fs::read_to_string(wd.join(format!("shard{}.current", r.shard))).unwrap_or_default();
                    let (idx_line, desc) = cur.split_once('\n').unwrap_or(("", ""));
                    let idx: Option<u64> = idx_line.trim().parse().ok();
                    let log_tail = std::fs::read(wd.join(format!("shard{}.log", r.shard))).map(|b| String::from_utf8_lossy(&b[b.len().saturating_sub(1500)..]).to_string()).unwrap_or_default();
                    total.count("shards_crashed");
                    if let Some(res) = partial {
                        total.merge(res);
                    } else if let Ok(s) = std::fs::read_to_string(wd.join(format!("shard{}.partial.json", r.shard))) {
                        if let Ok(res) = serde_json::from_str::<ShardResult>(&s) {
                            total.merge(res);
                        }
                    }
                    let _ = std::fs::remove_file(wd.join(format!("shard{}.partial.json", r.shard)));
                    let crash_file = work_dir("crashes").join(format!("{prop}_shard{}_case{}.txt", r.shard, idx.map(|i| i.to_string()).unwrap_or_else(|| "unknown".into())));
                    let _ = std::fs::write(&crash_file, desc);
                    match crash_policy.and_then(|p| if st.is_some() && !desc.is_empty() { p(desc, &log_tail) } else { None }) {
                        Some((sig, descr, replay)) => total.violation(sig, descr, replay),
                        None => total.inconclusive(format!("shard {} ended abnormally ({st:?}); case in flight saved to {}: {}", r.shard, crash_file.display(), desc.chars().take(200).collect::<String>())),
                    }
                    let left = budget.checked_sub(start.elapsed()).unwrap_or_default();
                    if let (Some(idx), true) = (idx, st.is_some() && left > Duration::from_secs(5) && r.attempt < 50) {
                        let (child, out) = spawn_shard(prop, tier, seed, r.shard, nshards, left, mem_limit_gib, idx + 1, r.attempt + 1);
                        still.push(Running { shard: r.shard, child, out, attempt: r.attempt + 1 });
                    }
                }
            }
        }
        running = still;
    }
    total.resume_at = None;
    total
}

pub fn set_mem_limit_from_env() {
    if let Ok(g) = std::env::var("SWVERIF_MEM_GIB") {
        if let Ok(g) = g.parse::<u64>() {
            if g > 0 {
                let lim = libc::rlimit { rlim_cur: g << 30, rlim_max: g << 30 };
                unsafe {
                    libc::setrlimit(libc::RLIMIT_AS, &lim);
                }
            }
        }
    }
}

/// Note which case a shard is about to run (so a crash can be attributed).
pub fn journal_current(ctx: &ShardCtx, text: &str) {
    let p = work_dir(&ctx.prop).join(format!("shard{}.current", ctx.shard));
    let _ = std::fs::write(p, text);
}

pub fn write_partial(ctx: &ShardCtx, res: &ShardResult) {
    let p = work_dir(&ctx.prop).join(format!("shard{}.partial.json", ctx.shard));
    let _ = std::fs::write(p, serde_json::to_string(res).unwrap());
}

/// Run `f` catching panics; returns Err((location, message)).
pub fn catch<T>(f: impl FnOnce() -> T + std::panic::UnwindSafe) -> Result<T, (String, String)> {
    use std::cell::RefCell;
    thread_local! { static LAST: RefCell<Option<(String,String)>> = const { RefCell::new(None) }; }
    static HOOK: std::sync::Once = std::sync::Once::new();
    HOOK.call_once(|| {
        std::panic::set_hook(Box::new(|info| {
            let loc = info.location().map(|l| format!("{}:{}", l.file(), l.line())).unwrap_or_default();
            let msg = if let Some(s) = info.payload().downcast_ref::<&str>() {
                s.to_string()
            } else if let Some(s) = info.payload().downcast_ref::<String>() {
                s.clone()
            } else {
                "<non-string panic>".to_string()
            };
            LAST.with(|l| *l.borrow_mut() = Some((loc, msg)));
        }));
    });
    LAST.with(|l| *l.borrow_mut() = None);
    match std::panic::catch_unwind(f) {
        Ok(v) => Ok(v),
        Err(_) => Err(LAST.with(|l| l.borrow_mut().take()).unwrap_or_default()),
    }
}

/// Strip digits so that messages with indices/sizes collapse to one signature; make the
/// location crate-relative.
pub fn panic_signature(loc: &str, msg: &str) -> String {
    let loc_rel = loc.trim_start_matches("/repo/");
    let file = loc_rel.split(':').next().unwrap_or("");
    let msg1: String = msg.chars().take(120).map(|c| if c.is_ascii_digit() { '#' } else { c }).collect();
    let mut out = String::new();
    let mut prev_hash = false;
    for c in msg1.chars() {
        if c == '#' {
            if !prev_hash {
                out.push('#');
            }
            prev_hash = true;
        } else {
            out.push(c);
            prev_hash = false;
        }
    }
    format!("panic@{file}: {out}")
}

pub fn choose<'a, T>(rng: &mut StdRng, xs: &'a [T]) -> &'a T {
    &xs[rng.gen_range(0..xs.len())]
}

pub fn chance(rng: &mut StdRng, p: f64) -> bool {
    rng.gen_bool(p)
}
