//! C19: formatting preserves the token sequence and the comments.
//!
//! Oracle, for every text x that sway-parse accepts and swayfmt formats to y under config c:
//!  (1) y parses (sway-parse, no error emitted);
//!  (2) the token sequence of y equals that of x. Both are taken from the lexer's token tree
//!      (comments excluded, doc comments `///` included as tokens), identifiers by source text,
//!      literals by VALUE (kind, parsed value, integer suffix), punctuation by character
//!      (whether two punctuation characters touch is whitespace and is not compared), after
//!      exactly these normalisations, applied to both sides:
//!        a. a `,` directly before a closing `)`, `]`, `}` is dropped  (swayfmt adds a trailing
//!           comma to lists it breaks over several lines and removes it on one line:
//!           swayfmt/src/utils/language/punctuated.rs, items/item_use/mod.rs);
//!        b. inside a `use` statement, the braces of a group with one element are dropped
//!           (`use a::{b};` -> `use a::b;`, item_use/mod.rs "check for only one import");
//!        c. inside a `use` statement, the elements of a `{..}` group are compared as a multiset
//!           (item_use/mod.rs sorts group imports);
//!        d. a `,` directly before the `{` or `;` that ends a `where` clause is dropped
//!           (utils/language/where_clause.rs always writes every bound with a trailing comma);
//!        e. parentheses around a single type in a type position (after `->`, after `:` in a
//!           struct / enum declaration body, first argument after `::<`) are dropped: the parser
//!           itself returns the inner type for `(T)` (sway-parse/src/ty/mod.rs), the AST has no
//!           node for them, so swayfmt cannot and does not print them;
//!      anything else that differs is a violation;
//!  (3) the comments of y (`//` and `/* */`, in source order, trailing blanks of each line and
//!      CR/LF ignored) are exactly the comments of x, in the same order.
//!
//! Explored set and signatures: see c18.rs / c18_fmt.rs (same fixed enumeration).
use crate::c18::fmt::*;
use crate::c18::{replay_with, shard_with, signature};
use crate::common::*;
use crate::{Plan, Prop};
use serde_json::json;

pub static META: PropertyMeta = PropertyMeta {
    id: "C19",
    level: "exploration",
    rule: "fixed enumeration: every .sw file under /repo x (12 formatter configs with the file as is + 9 text variants [CRLF, re-flows, blank lines, tabs, inserted line / trailing / block comments at calibrated token boundaries] with the default config); quick = every file with the default config plus 6 seed-chosen other sub-cases per file, thorough = all; an evaluation = a parseable case that was formatted and whose output was parsed, token-compared and comment-compared; non-trivial = formatted successfully and the input has >= 20 tokens; distinct = hash of (path, config, variant)",
    assumptions: &[
        "sway-parse's lexer is trusted to delimit tokens, literals' values and comments of both the input and the output",
        "whether two punctuation characters are adjacent (`& &` vs `&&`, `> >` vs `>>`) is treated as whitespace; a regrouping that still parses is not observed",
        "literals are compared by value, not by spelling (counter literal_spelling_changed shows how often the spelling changed)",
    ],
    floor_evaluations: 1500,
    floor_nontrivial: 1000,
    required_counters: &["formatted_ok", "output_parses", "token_streams_equal", "comment_lists_equal", "comments_compared", "cases_with_comments", "rejected_input_unparsable", "configs_nondefault_cases", "variant_cases", "norm_trailing_commas", "norm_single_import_braces"],
};

pub static PROP: Prop = Prop {
    meta: &META,
    plan: |t| Plan { nshards: t.pick(12, 16), budget_s: t.pick(75.0, 1200.0), mem_gib: 6 },
    shard: |ctx| shard_with(ctx, 6, check),
    replay: |case| replay_with(case, check),
    extra: crate::c18::extra,
    subcommand: crate::no_subcommand,
};

fn strip_digits(s: &str) -> String {
    s.chars().filter(|c| !c.is_ascii_digit()).collect()
}

pub fn check(case: &CaseId, x: &str, ntokens: usize, res: &mut ShardResult) {
    let Some(cfg) = config_by_name(case.config) else {
        res.inconclusive(format!("unknown config {}", case.config));
        return;
    };
    res.count("cases");
    if case.config != CONFIGS[0] {
        res.count("configs_nondefault_cases");
    }
    if case.variant != VARIANTS[0] {
        res.count("variant_cases");
    }
    let replay = || json!({"file": case.file, "config": case.config, "variant": case.variant, "input": x});
    let lx = match lex(x) {
        Ok(l) => l,
        Err(e) => {
            if e.starts_with("harness:") {
                res.inconclusive(format!("{}: {e}", case.key()));
            }
            res.count("rejected_input_unparsable");
            return;
        }
    };
    if parses(x).is_err() {
        res.count("rejected_input_unparsable");
        return;
    }
    let y = match run_fmt(x, &cfg) {
        FmtOut::Ok(s) => s,
        FmtOut::ParseRejected(_) => {
            res.count("rejected_by_formatter_parser_only");
            return;
        }
        FmtOut::OtherError(e) => {
            res.count("formatter_error_on_parseable_input");
            res.count(&format!("formatter_error[{}]", short(&e, 40)));
            return;
        }
        FmtOut::Panic(loc, msg) => {
            res.count("formatter_panic");
            res.inconclusive(format!("{}: formatter panicked at {loc}: {}", case.key(), short(&msg, 100)));
            return;
        }
    };
    res.count("formatted_ok");
    res.count(&format!("ok_config[{}]", case.config));
    res.count(&format!("ok_variant[{}]", case.variant));
    res.evaluations += 1;
    if ntokens >= 20 {
        res.note_nontrivial(hash64(case.key().as_bytes()));
    }
    let ctx = format!("{} [config {}, variant {}]", case.file, case.config, case.variant);

    // (1) the output parses
    match parses(&y) {
        Ok(()) => res.count("output_parses"),
        Err(e) => {
            res.count("output_unparsable");
            res.violation(signature(case, "output-unparsable", &strip_digits(&short(&e, 60))), format!("swayfmt output for {ctx} does not parse: {}", short(&e, 160)), replay());
        }
    }
    let ly = match lex(&y) {
        Ok(l) => l,
        Err(e) => {
            res.count("output_not_lexable");
            res.violation(signature(case, "output-not-lexable", &strip_digits(&short(&e, 60))), format!("swayfmt output for {ctx} does not lex: {}", short(&e, 160)), replay());
            return;
        }
    };

    // (2) token sequences
    let mut st_in = NormStats::default();
    let mut st_out = NormStats::default();
    let mut a = vec![];
    let mut b = vec![];
    flatten(&normalise(lx.tree.clone(), &mut st_in), &mut a);
    flatten(&normalise(ly.tree.clone(), &mut st_out), &mut b);
    res.count("token_streams_compared");
    res.add("tokens_compared", a.len() as u64);
    res.max("max_tokens_in_one_file", a.len() as u64);
    res.add("norm_trailing_commas", st_in.trailing_commas + st_out.trailing_commas);
    res.add("norm_single_import_braces", st_in.single_import_braces);
    res.add("norm_single_import_braces_left_in_output", st_out.single_import_braces);
    res.add("norm_use_groups_sorted", st_in.use_groups_sorted);
    res.add("norm_where_commas", st_in.where_commas + st_out.where_commas);
    res.add("norm_type_parens", st_in.type_parens);
    res.add("norm_type_parens_left_in_output", st_out.type_parens);
    if lx.literal_texts != ly.literal_texts {
        res.count("literal_spelling_changed");
    }
    if a == b {
        res.count("token_streams_equal");
    } else {
        res.count("token_streams_differ");
        let i = a.iter().zip(b.iter()).position(|(p, q)| p != q).unwrap_or(a.len().min(b.len()));
        let at = |v: &Vec<String>, k: usize| v.get(k).cloned().unwrap_or_else(|| "<end>".to_string());
        let ctx_toks = |v: &Vec<String>| v[i.saturating_sub(4)..(i + 4).min(v.len())].join(" ");
        res.violation(
            signature(case, "tokens-differ", &format!("{}\n{}", at(&a, i), at(&b, i))),
            format!("swayfmt changes the token sequence of {ctx}: token #{i} is `{}` in the input but `{}` in the output (input `.. {} ..`, output `.. {} ..`; {} vs {} tokens)", short(&at(&a, i), 40), short(&at(&b, i), 40), short(&ctx_toks(&a), 120), short(&ctx_toks(&b), 120), a.len(), b.len()),
            replay(),
        );
    }

    // (3) comments
    let ca: Vec<String> = lx.comments.iter().map(|c| norm_comment(c)).collect();
    let cb: Vec<String> = ly.comments.iter().map(|c| norm_comment(c)).collect();
    res.count("comment_lists_compared");
    res.add("comments_compared", ca.len() as u64);
    res.max("max_comments_in_one_file", ca.len() as u64);
    if !ca.is_empty() {
        res.count("cases_with_comments");
    }
    if lx.comments.iter().any(|c| c.starts_with("/*")) {
        res.count("cases_with_block_comments");
    }
    if ca == cb {
        res.count("comment_lists_equal");
        if res.samples.is_empty() && ntokens >= 20 && !ca.is_empty() && !case.file.starts_with("builtin:") {
            res.sample(json!({"case": case.json(), "tokens": a.len(), "comments": ca.len(), "first_comment": short(&ca[0], 60), "output_parses": true, "trailing_commas_normalised": st_in.trailing_commas + st_out.trailing_commas}));
        }
    } else {
        res.count("comment_lists_differ");
        let mut sa = ca.clone();
        let mut sb = cb.clone();
        sa.sort();
        sb.sort();
        let kind = if sa == sb {
            "comments-reordered"
        } else if cb.len() < ca.len() {
            "comments-lost"
        } else if cb.len() > ca.len() {
            "comments-duplicated"
        } else {
            "comments-changed"
        };
        let i = ca.iter().zip(cb.iter()).position(|(p, q)| p != q).unwrap_or(ca.len().min(cb.len()));
        let at = |v: &Vec<String>, k: usize| v.get(k).cloned().unwrap_or_else(|| "<no more comments>".to_string());
        res.violation(
            signature(case, kind, &format!("{}\n{}", at(&ca, i), at(&cb, i))),
            format!("swayfmt does not keep the comments of {ctx} ({kind}; {} in the input, {} in the output): comment #{i} is `{}` in the input but `{}` in the output", ca.len(), cb.len(), short(&at(&ca, i), 70), short(&at(&cb, i), 70)),
            replay(),
        );
    }
}
