#!/bin/bash
# Development aid: run the repository's pinned test suite with the verification guard OFF and
# compare with the stable-pass list of /root/.vp/BASELINE.json. Output: work/baseline_summary.txt
cd /repo || exit 2
unset RUSTFLAGS
export CARGO_NET_OFFLINE=true
cargo nextest run --workspace --no-fail-fast --tool-config-file pb:/w/lib/nextest.toml --profile pb --test-threads 8 --offline > /verif/work/baseline_run.log 2>&1
python3 /w/lib/parse_tests.py --kind junit --glob "/repo/target/nextest/pb/junit.xml" --out /verif/work/baseline_parsed.json
python3 - <<'EOF'
import json
b=json.load(open('/root/.vp/BASELINE.json'))
r=json.load(open('/verif/work/baseline_parsed.json'))
passed=set(r.get('passed',[])); failed=set(r.get('failed',[]))
stable=set(b['stable_pass'])
miss=sorted(stable-passed)
out=[f"stable_pass={len(stable)} passed_now={len(passed)} failed_now={len(failed)} stable_not_passing={len(miss)}"]+miss
open('/verif/work/baseline_summary.txt','w').write("\n".join(out)+"\n")
print("\n".join(out[:30]))
EOF
