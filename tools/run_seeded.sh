#!/bin/bash
# Run registered checks against a seeded change: tools/run_seeded.sh seeded/<id> <tier> C01 [C02 ...]
# Applies seeded/<id>/patch.diff to /repo's working tree, runs the checks, ALWAYS reverts the
# working tree afterwards (git -C /repo checkout -- .) and rebuilds the harness on the clean tree.
# Output: seeded/<id>/detection.txt (one line per check: exit code, number of VIOLATION lines, first ones)
set -u
dir="$(cd "$1" && pwd)"; tier="$2"; shift 2
cd /verif
if ! git -C /repo diff --quiet; then echo "/repo working tree is not clean"; exit 2; fi
cleanup() { git -C /repo checkout -- . ; git -C /repo clean -fdq -- sway-lib-std sway-core sway-ir forc-pkg 2>/dev/null; ./check --build >/dev/null 2>&1; }
trap cleanup EXIT
git -C /repo apply "$dir/patch.diff" || { echo "patch does not apply"; exit 2; }
out="$dir/detection.txt"
echo "# $(date -u +%FT%TZ) repo=$(git -C /repo rev-parse --short HEAD) tier=$tier seed=${VERIF_SEED:-1}" >> "$out"
for c in "$@"; do
  log=$(mktemp -p /verif/work)
  VERIF_SEED=${VERIF_SEED:-1} ./check "$c" "$tier" > "$log" 2>&1; code=$?
  n=$(grep -c '^VIOLATION' "$log")
  echo "$c exit=$code violations=$n :: $(grep -m2 '^  violation:' "$log" | cut -c1-300 | tr '\n' ' ')" | tee -a "$out"
  tail -1 "$log" | cut -c1-200 | tee -a "$out"
  rm -f "$log"
done
