#!/bin/bash
# tools/agent_setup.sh <name>   -> private copy of the harness crate for one implementer
# build with: tools/agent_build.sh <name>   (binary: /verif/target/release/swverif-<name>)
set -e
N="$1"; D=/verif/work/agents/$N
mkdir -p "$D"; rm -rf "$D/harness"; cp -r /verif/harness "$D/harness"
sed -i "s/^name = \"swverif\"/name = \"swverif-$N\"/" "$D/harness/Cargo.toml"
echo "$D/harness"
