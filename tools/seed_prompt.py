#!/usr/bin/env python3
"""Print the prompt for an independent 'seeded change' sub-agent for one property (the agent gets
only the property text, never anything from /verif)."""
import json, sys
pid = sys.argv[1]
extra = sys.argv[2] if len(sys.argv) > 2 else ""
p = {json.loads(l)['id']: json.loads(l) for l in open('/verif/properties.jsonl')}[pid]
wt = f"/tmp/seed-{pid}{('-' + extra) if extra else ''}"
print(f"""You are helping to test a verification effort for the Rust repository FuelLabs/sway, checked out at /repo (a git repository). Your job: produce ONE realistic, subtle code change (a "seeded defect") that BREAKS the property below while the code still compiles and the repository's existing tests still pass - plus a demonstration that fails with your change and passes without it.

PROPERTY {pid}: {p['title']}
{p['statement']}
Quantified over: {p['quantifier']['text']}
Code the property is anchored in: {', '.join(p['anchors']['files'])}

Rules
1. Work ONLY in your own scratch worktree: `git -C /repo worktree add {wt} HEAD`, edit files there. Never edit, commit or check out anything in /repo itself. Do NOT read, list or use anything under /verif: your change must be independent of whatever checks exist there.
2. The change must be the kind of mistake a maintainer or a refactoring could plausibly introduce (roughly 1-15 changed lines, no new dependencies, not an obvious sabotage like `panic!()`), it must compile, and the existing tests of every crate you touch must still pass. There is no network; all crates are already in ~/.cargo. To save disk and build time ALL builds use the shared, already warm target directory: always set `CARGO_TARGET_DIR=/tmp/seedtarget` (never copy /repo/target, never build into the worktree; cargo may wait on the directory lock while another build runs - that is expected). Run e.g. `cd {wt} && CARGO_TARGET_DIR=/tmp/seedtarget cargo test -p <crate> --offline` for the crates you touched (sway-lsp's `lib` integration tests are slow and several of them fail already without any change - for sway-lsp run the unit tests: `cargo test -p sway-lsp --lib --offline`). For changes to the Sway standard library (`sway-lib-std/src/*.sw`) no Rust test executes that code; check instead that the library still compiles (build forc: `cargo build -p forc --offline`, then `/tmp/seedtarget/debug/forc build --path sway-lib-std --offline`).
3. Prefer a change that needs something SPECIFIC to manifest - a particular input shape or boundary value, a multi-step sequence of operations, an interleaving, a crash at a particular point, two cooperating sites that each look fine alone - not one that any ordinary use exposes at once. The machine is shared and busy: builds are slow, be economical (one or two candidate changes, not ten).
4. Demonstration: a Rust test (may be a new `#[test]` in the touched crate, a file under `tests/`, or a tiny binary/example) or, for Sway library code, a small Sway package with `#[test]` functions run by `/tmp/seedtarget/debug/forc test --path <pkg> --offline` (give the package `std = {{ path = "<worktree>/sway-lib-std" }}`). Show that it FAILS with the change and PASSES on the unchanged code (`git stash` / `git stash pop`, or a second worktree).
5. Deliverables, all under {wt}/OUT/ : `patch.diff` (output of `git -C {wt} diff` - the change ONLY, without the demonstration), `demo/` (the demonstration files and a `README` with the exact commands and the observed output with/without the change), `meta.json` = {{"property": "{pid}", "summary": "...", "what_it_breaks": "...", "needs_to_manifest": "...", "tests_run": ["..."]}}.
6. When finished leave the worktree and OUT/ in place (do not delete /tmp/seedtarget). Report: the patch, why it breaks the property, what is needed to trigger it, which existing tests you ran.
""")
