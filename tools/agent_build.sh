#!/bin/bash
# tools/agent_build.sh <name>  build the private harness copy (shares /verif/target dependency cache)
N="$1"; D=/verif/work/agents/$N
export CARGO_NET_OFFLINE=true CARGO_TARGET_DIR=/verif/target RUSTFLAGS="--cfg fuellabs_sway_verif" TMPDIR=/verif/work/tmp
mkdir -p /verif/work/tmp
cargo build --release --offline --manifest-path "$D/harness/Cargo.toml" 2>&1 | grep -v "^warning: unused\|^\s*Compiling\|^\s*= note" | tail -${2:-60}
exit ${PIPESTATUS[0]}
