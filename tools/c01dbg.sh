#!/bin/bash
# debug helper: run one C01 shard for $1 ms with seed $2, print rejections and summary
cd /verif && ./check --build 2>&1 | grep -E "^error" -A14 | head -60
mkdir -p work/C01
target/release/swverif shard ${3:-C01} quick ${2:-1} 0 16 ${1:-25000} work/C01/s0.json > work/C01/dbg.txt 2>&1
grep -n "rejected program" work/C01/dbg.txt | sort -k3 | uniq -c -f2 | head -12
python3 -c "
import json; r=json.load(open('/verif/work/C01/s0.json')); print(r['evaluations'], 'nontrivial', len(r['nontrivial']), {k:v for k,v in r['counters'].items() if not k.startswith('op.')}, r['inconclusive_notes'][:3]); [print('VIOL', v['signature'], v['description'][:400]) for v in r['violations'][:6]]"
