#!/usr/bin/env python3
"""Development aid (never run by a check): after `./check C17 thorough` on the UNCHANGED tree,
add every violation signature that is not yet listed to known_findings.d/C17.json with a witness
file under known_findings.d/witnesses/C17/. Each new class still has to be looked at by a human
before it is committed as a finding (is it really a compiler crash?)."""
import json, glob, os, sys
V = '/verif'
kf_path = f'{V}/known_findings.d/C17.json'
kf = json.load(open(kf_path))
listed = {e['signature'] for e in kf}
wdir = f'{V}/known_findings.d/witnesses/C17'
os.makedirs(wdir, exist_ok=True)
n = len(glob.glob(f'{wdir}/*.json'))
added = 0
for f in sorted(glob.glob(f'{V}/replays/C17/*.json')):
    r = json.load(open(f))
    sig = r['signature']
    if sig in listed:
        continue
    case = dict(r['case'])
    # fixed generated programs: keep the source text too, the generator may change later
    w = f'known_findings.d/witnesses/C17/{n:02d}.json'
    n += 1
    json.dump({'property': 'C17', 'signature': sig, 'case': case}, open(f'{V}/{w}', 'w'), indent=1)
    kf.insert(len(kf) - 1, {'property': 'C17', 'signature': sig,
                            'description': f"compiler crash class (first seen on: {r['description'][:200]}); witness: {w} (./check C17 --replay {w})",
                            'status': 'open'})
    listed.add(sig)
    added += 1
    print('added', sig[:140])
json.dump(kf, open(kf_path, 'w'), indent=1)
print(added, 'classes added;', len(kf), 'entries')
