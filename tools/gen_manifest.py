#!/usr/bin/env python3
"""Generate /verif/MANIFEST.json from the table below (kept next to the code so the manifest
can never drift from what ./check implements)."""
import json, os, sys
HERE = os.path.dirname(os.path.dirname(os.path.abspath(__file__)))

HOOK_COMMITS = [
    "4321c61 H0 sway-types/src/verif_hooks.rs + check-cfg lint",
    "1a301e9 H1-H3 sway-core/src/verif.rs, lib.rs, optimizations/mod.rs, register_allocator.rs, sway-ir pass_manager.rs",
    "39e74dc H4 sway-lsp server_state.rs, handlers/notification.rs, forc-pkg pkg.rs, sway-core check_should_abort",
    "bdd6923 H5 forc-util/src/fs_locking.rs",
    "1bc8de8 H6 forc-pkg/src/source/git/mod.rs",
    "922cdf9, 0aa3e36, bb9e6f8, ac6d910: fix commits whose rewritten code keeps / moves guarded hook points (H5 points around the new rename, H6 point fetch.renamed, H4 points in the worker and didOpen); the guarded lines are inside cfg(fuellabs_sway_verif) like the others",
]

# id -> (category, technique, level text, level note, design ref, engine)
CHECKS = {}
NOT_YET = {}

def claim(pid, category, technique, text, note, engine="swverif"):
    CHECKS[pid] = dict(category=category, technique=technique, text=text, note=note, engine=engine)

exec(open(os.path.join(HERE, "tools", "manifest_table.py")).read())

props = [json.loads(l)["id"] for l in open(os.path.join(HERE, "properties.jsonl"))]
checks = []
na = []
for pid in props:
    if pid in CHECKS:
        c = CHECKS[pid]
        checks.append({
            "property_id": pid,
            "quick_cmd": f"./check {pid} quick",
            "thorough_cmd": f"./check {pid} thorough",
            "evidence_file": f"evidence/{pid}.json",
            "replay_cmd_template": f"./check {pid} --replay {{path}}",
            "engine": c["engine"],
            "level_claimed": {"category": c["category"], "text": c["text"], "design_ref": f"DESIGN.md section 4, {pid}"},
            "level_note": c["note"],
            "technique": c["technique"],
        })
    else:
        na.append({"property_id": pid, "reason": NOT_YET.get(pid, "monitor not built yet in this session (runtime-monitoring design exists in DESIGN.md section 4); not claimed until its check runs silent on the unchanged tree")})

manifest = {
    "version": 1,
    "setup_cmd": "./check --build",
    "hooks": {
        "guard": "fuellabs_sway_verif",
        "enable": "RUSTFLAGS=\"--cfg fuellabs_sway_verif\" (set by ./check; the harness crate depends on the /repo crates by path, so every check rebuilds what changed under /repo)",
        "baseline_off_cmd": "cd /repo && cargo nextest run --workspace --no-fail-fast --test-threads 8 --offline || cargo test --workspace --no-fail-fast --offline",
        "source_commits": HOOK_COMMITS,
        "add_only": True,
    },
    "engines": ENGINES,
    "checks": checks,
    "notes": NOTES,
    "not_applicable": na,
}
json.dump(manifest, open(os.path.join(HERE, "MANIFEST.json"), "w"), indent=1)
print(f"MANIFEST.json: {len(checks)} checks, {len(na)} not claimed")
