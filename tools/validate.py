#!/usr/bin/env python3
import json, sys, glob, jsonschema
m = json.load(open('/verif/MANIFEST.json'))
jsonschema.validate(m, json.load(open('/root/.vp/MANIFEST.schema.json')))
es = json.load(open('/root/.vp/EVIDENCE.schema.json'))
bad = 0
for c in m['checks']:
    f = '/verif/' + c['evidence_file']
    try:
        e = json.load(open(f)); jsonschema.validate(e, es)
        assert e['level'] == c['level_claimed']['category'], (e['level'], c['level_claimed']['category'])
    except Exception as ex:
        bad += 1; print('BAD', f, str(ex)[:200])
print('manifest ok;', len(m['checks']), 'checks;', bad, 'bad evidence files')
sys.exit(1 if bad else 0)
