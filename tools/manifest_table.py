ENGINES = [
    {"name": "swverif", "path": "harness/", "serves_properties": [], "kind_free_text": "one Rust binary (harness/src): generators, reference models, monitors over hook events, worker sharding; built against /repo by path with --cfg fuellabs_sway_verif"},
]
NOTES = ("Runtime monitoring only: every check runs the real /repo code on generated / hostile / fault-injected workloads and an oracle "
         "observes the executions. Exit 0 = held on everything explored, 1 = VIOLATION line(s), 2 = the check could not run (never a verdict). "
         "Known findings live in known_findings.json and are matched by exact signature.")

claim("C22", "exploration", "runtime monitor: independent-DFS oracle over the real compilation_order on random graphs",
      "Millions of random package graphs (DAG shapes, parallel edges, both edge kinds, injected cycles and self-loops) are pushed through the real forc_pkg::compilation_order; an independent DFS decides acyclicity and the monitor checks permutation + dependency-before-dependent on every returned order. Exploration is the right level: the function is pure and cheap, so volume and shape diversity reach what a handful of unit graphs cannot.",
      "Trusts petgraph's graph container; graphs are bounded to 30 nodes.")

claim("C20", "exploration", "runtime monitor: graph-in vs graph-out differential through the real Forc.lock writer and reader",
      "Random resolved package graphs over all five source kinds (renamed edges, salted contract edges, forced disambiguation, adversarial accepted names) plus a fixed list of named corner graphs are written with the serialiser forc uses and read back through Lock::from_path + to_graph; node and edge multisets are compared. The graph is built without the FromStr code under test. Exploration fits: the round trip is pure and microseconds per case.",
      "Graphs <= 12 packages; parallel edges and cyclic graphs are not generated (forc's resolver cannot produce them); '#', '(' and ')' in git refs are explored only through the fixed named cases (they are listed findings).")
claim("C21", "exploration", "runtime monitor: never-panics oracle (catch_unwind with call-site signatures) over mutated lock files and source strings",
      "Millions of fuzzed source strings, dependency lines and mutated generated/repo Forc.lock files go through the real Lock::from_path + to_graph and source::Pinned::from_str under catch_unwind; any panic is reported with a call-site signature. The five slicing panics found on the original tree were repaired by a fix: commit and are recorded as fixed.",
      "Only the lock-file reading path is driven (not manifest parsing); toml crate internals are trusted.")
