ENGINES = [
    {"name": "swverif", "path": "harness/", "serves_properties": [], "kind_free_text": "one Rust binary (harness/src): generators, reference models, monitors over hook events, worker sharding; built against /repo by path with --cfg fuellabs_sway_verif"},
]
NOTES = ("Runtime monitoring only: every check runs the real /repo code on generated / hostile / fault-injected workloads and an oracle "
         "observes the executions. Exit 0 = held on everything explored, 1 = VIOLATION line(s), 2 = the check could not run (never a verdict). "
         "Known findings live in known_findings.json and are matched by exact signature.")

claim("C22", "exploration", "runtime monitor: independent-DFS oracle over the real compilation_order on random graphs",
      "Millions of random package graphs (DAG shapes, parallel edges, both edge kinds, injected cycles and self-loops) are pushed through the real forc_pkg::compilation_order; an independent DFS decides acyclicity and the monitor checks permutation + dependency-before-dependent on every returned order. Exploration is the right level: the function is pure and cheap, so volume and shape diversity reach what a handful of unit graphs cannot.",
      "Trusts petgraph's graph container; graphs are bounded to 30 nodes.")
